#!/bin/bash
# Run the quick check of each seeded change's property with the change applied to $VERIF_REPO (default /repo),
# undo the change straight afterwards, and print one line per seed: DETECTED (with the oracles that fired) or MISSED.
# usage: tools/seed_matrix.sh [<id>...]        (default: every directory under seeded/)
cd "$(dirname "$0")/.."
R=${VERIF_REPO:-/repo}
export VERIF_EVIDENCE_DIR=${VERIF_EVIDENCE_DIR:-$PWD/.work/evidence-experiments}
ids=("$@"); [ ${#ids[@]} -eq 0 ] && ids=($(ls seeded | grep -E '^C[0-9]+-[0-9]+$' | sort -V))
for id in "${ids[@]}"; do
  prop=${id%%-*}
  if ! (cd $R && git apply --check /verif/seeded/$id/patch.diff 2>/dev/null || git apply --check "$OLDPWD/seeded/$id/patch.diff" 2>/dev/null); then echo "$id: PATCH DOES NOT APPLY"; continue; fi
  (cd $R && git apply "$OLDPWD/seeded/$id/patch.diff")
  out=$(./check $prop quick 2>&1); rc=$?
  (cd $R && git apply -R "$OLDPWD/seeded/$id/patch.diff")
  oracles=$(echo "$out" | grep -oE "oracle=[A-Za-z0-9_.:-]+|C16\.[a-z.-]+|candidate [A-Za-z0-9_.:-]+" | sort | uniq -c | sort -rn | head -4 | awk '{printf "%s x%s; ", $2, $1}')
  nv=$(echo "$out" | grep -c "^VIOLATION")
  if [ $rc -eq 1 ] && [ $nv -gt 0 ]; then echo "$id: DETECTED exit=$rc violations=$nv  $oracles"
  elif [ $rc -eq 0 ]; then echo "$id: MISSED exit=0  $(echo "$out" | grep -E 'quick:' | tail -1)"
  else echo "$id: HARNESS exit=$rc  $(echo "$out" | tail -2 | tr '\n' ' ' | cut -c1-300)"; fi
done
