#!/bin/bash
# Re-confirm seeded changes under /verif/seeded/<id>/ against /repo's current HEAD, in a scratch worktree:
#   (1) the demonstration passes on the pristine tree, (2) fails with patch.diff applied,
#   (3) the whole pinned suite still passes with patch.diff applied.
# usage: tools/verify_seeded.sh <id>...      (writes seeded/<id>/confirmed.txt)
WT=/tmp/wt/verify_$$
export CARGO_TARGET_DIR=$WT/target CARGO_NET_OFFLINE=true RUST_BACKTRACE=0
git -C /repo worktree add -q --detach $WT HEAD || exit 1
cd $WT
for id in "$@"; do
  D=/verif/seeded/$id
  demo=$(ls $D/*.rs | head -1); name=$(basename $demo .rs)
  # meta.json may name the package whose tests/ directory the demonstration belongs to (default savefile-test)
  pkg=$(python3 -c "import json,sys;print(json.load(open('$D/meta.json')).get('demo_pkg','savefile-test'))")
  mkdir -p $pkg/tests; cp $demo $pkg/tests/
  pre() { if [ "$pkg" = savefile-abi-min ]; then cargo build --offline -p savefile-abi-min-lib-impl >/dev/null 2>&1; fi; }
  pre; timeout 1800 cargo test --offline -p $pkg --test $name > /tmp/wt/v_$id.without.log 2>&1; a=$?
  if ! git apply $D/patch.diff; then echo "$id: PATCH DOES NOT APPLY to $(git -C /repo rev-parse --short HEAD)" | tee $D/confirmed.txt; rm -f $pkg/tests/$name.rs; continue; fi
  pre; timeout 1800 cargo test --offline -p $pkg --test $name > /tmp/wt/v_$id.with.log 2>&1; b=$?
  rm -f $pkg/tests/$name.rs
  timeout 2400 cargo nextest run --workspace --no-fail-fast --tool-config-file pb:/w/lib/nextest.toml --profile pb --test-threads 8 --offline > /tmp/wt/v_$id.suite.log 2>&1; c=$?
  echo "$id @ repo $(git -C /repo rev-parse --short HEAD): demo without patch exit=$a (0 expected); demo with patch exit=$b (non-zero expected); pinned suite with patch exit=$c $(grep -E 'Summary' /tmp/wt/v_$id.suite.log | tail -1)" | tee $D/confirmed.txt
  git checkout -q -- . ; git clean -fdq savefile-test/tests savefile-abi-min/tests 2>/dev/null
done
cd /; git -C /repo worktree remove --force $WT
