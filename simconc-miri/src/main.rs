//! simconc-miri: the C16 scenario on std threads, meant to run under Miri
//! (`-Zmiri-many-seeds`, `-Zmiri-preemption-rate`): Miri's scheduler is deterministic per seed, it detects data
//! races and undefined behaviour that shuttle (which only sees its own primitives) cannot. Guard OFF: this links
//! /repo's savefile-abi unchanged. The workload arrives on the command line (never through the environment).
#[path = "../../simconc/simconc/src/ifaces.rs"]
mod ifaces;
#[path = "../../simconc/simconc/src/scen.rs"]
mod scen;
use scen::*;

fn main() {
    let args: Vec<String> = std::env::args().collect();
    let wl = args.get(1).expect("workload json");
    let v: serde_json::Value = serde_json::from_str(wl).expect("json");
    let w = Workload::from_json(&v);
    // concurrent execution FIRST (this process has empty caches: first use), then the same lists one after another
    let conc = scenario(&w, false);
    let seq = scenario(&w, true);
    if conc.per_thread != seq.per_thread {
        println!("RESULT-MISMATCH concurrent {:?} vs one-after-another {:?}", conc.per_thread, seq.per_thread);
        std::process::exit(1);
    }
    if conc.post != seq.post {
        println!("TEMPLATE-MISMATCH {:?} vs {:?}", conc.post, seq.post);
        std::process::exit(1);
    }
    if !conc.linearizable {
        println!("NOT-LINEARIZABLE history of {} operations", conc.history_len);
        std::process::exit(1);
    }
    println!("OK threads={} history={}", w.threads.len(), conc.history_len);
}
