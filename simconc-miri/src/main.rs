//! simconc-miri: the C16 scenario on std threads, meant to run under Miri
//! (`-Zmiri-many-seeds`, `-Zmiri-preemption-rate`): Miri's scheduler is deterministic per seed, it detects data
//! races and undefined behaviour that shuttle (which only sees its own primitives) cannot. Guard OFF: this links
//! /repo's savefile-abi unchanged. The workload arrives on the command line (never through the environment).
#[path = "../../simconc/simconc/src/ifaces.rs"]
mod ifaces;
#[path = "../../simconc/simconc/src/scen.rs"]
mod scen;
use scen::*;
use savefile_abi::AbiConnection;
use savefile_derive::savefile_abi_exportable;
use std::cell::Cell;
use std::marker::PhantomData;

/// An interface that is Send but NOT Sync, with an implementation that relies on that (unsynchronised interior
/// mutability). A connection to it must not be shareable between threads.
#[savefile_abi_exportable(version = 0)]
pub trait Ticket: Send {
    fn next(&self) -> u64;
}
struct TicketImpl(Cell<u64>);
impl Ticket for TicketImpl {
    fn next(&self) -> u64 {
        let v = self.0.get();
        std::thread::yield_now();
        self.0.set(v + 1);
        v
    }
}
/// compile-time probe that compiles on every tree: is `T` Sync? (inherent method wins when the bound holds)
struct Probe<T: ?Sized>(PhantomData<T>);
trait NotSyncFallback {
    fn is_sync(&self) -> bool {
        false
    }
}
impl<T: ?Sized> NotSyncFallback for Probe<T> {}
impl<T: ?Sized + Sync> Probe<T> {
    fn is_sync(&self) -> bool {
        true
    }
}
struct ShareAnyway<T>(T);
unsafe impl<T> Sync for ShareAnyway<T> {}
unsafe impl<T> Send for ShareAnyway<T> {}

/// If the library lets a connection to a Send-only interface be shared (`Sync`), do what a program could then do in
/// safe code - call it from two threads - and let Miri judge the result.
fn send_only_interface_check() {
    let shareable = Probe::<AbiConnection<dyn Ticket>>(PhantomData).is_sync();
    if !shareable {
        println!("PROBE send-only connection is not Sync");
        return;
    }
    println!("PROBE send-only connection IS Sync: exercising it from two threads");
    let conn = std::sync::Arc::new(ShareAnyway(AbiConnection::<dyn Ticket>::from_boxed_trait(Box::new(TicketImpl(Cell::new(0)))).expect("ticket")));
    let mut hs = Vec::new();
    for _ in 0..2 {
        let c = conn.clone();
        hs.push(std::thread::spawn(move || {
            let mut v = Vec::new();
            for _ in 0..3 {
                v.push(c.0.next());
            }
            v
        }));
    }
    let mut all: Vec<u64> = hs.into_iter().flat_map(|h| h.join().unwrap()).collect();
    all.sort();
    all.dedup();
    if all.len() != 6 {
        println!("RESULT-MISMATCH 6 concurrent calls on a shared connection handed out only {} distinct tickets", all.len());
        std::process::exit(1);
    }
}

fn main() {
    let args: Vec<String> = std::env::args().collect();
    let wl = args.get(1).expect("workload json");
    let v: serde_json::Value = serde_json::from_str(wl).expect("json");
    let w = Workload::from_json(&v);
    send_only_interface_check();
    // concurrent execution FIRST (this process has empty caches: first use), then the same lists one after another
    let conc = scenario(&w, false);
    let seq = scenario(&w, true);
    if conc.per_thread != seq.per_thread {
        println!("RESULT-MISMATCH concurrent {:?} vs one-after-another {:?}", conc.per_thread, seq.per_thread);
        std::process::exit(1);
    }
    // the sequential run shares this process's caches with the concurrent one that ran first, so it cannot serve as the
    // yardstick for what got cached: compare with what a sequential negotiation gives on this platform
    if conc.post != seq.post || conc.post != expected_post() {
        println!("TEMPLATE-MISMATCH {:?} vs {:?} (expected {:?})", conc.post, seq.post, expected_post());
        std::process::exit(1);
    }
    if !conc.linearizable {
        println!("NOT-LINEARIZABLE history of {} operations", conc.history_len);
        std::process::exit(1);
    }
    println!("OK threads={} history={}", w.threads.len(), conc.history_len);
}
