#!/usr/bin/env python3
"""Regenerates MANIFEST.json (kept as a script so that the claimed set, the not-applicable list and the hook
commits stay consistent). Run from /verif."""
import json, subprocess
NA = {
"C01":"pure function of (type, value, container): nothing scheduled, interrupted or damaged; deciding it is input generation, not simulation (DESIGN §7)",
"C02":"byte-exact conformance needs an independent reference encoder and value generation; no execution environment to simulate (DESIGN §7)",
"C03":"histories are edit histories of type definitions (programs); for a given pair the result is a pure function of the saved bytes (DESIGN §7)",
"C04":"bulk-copyable is a compile-time predicate of a type definition and layout; the space is type definitions, not schedules or faults (DESIGN §7)",
"C05":"accept/reject is a pure function of two schemas and the header; quadratic space of type pairs is input generation (DESIGN §7)",
"C10":"negotiation and transmission are deterministic and synchronous for a given (caller def, callee def, value); version-skewed peers appear only as a configuration of C16 (DESIGN §7)",
"C11":"layout_compatible is a static predicate over two type descriptions; a wrong answer is observable only through a different build (DESIGN §7)",
"C12":"schema faithfulness needs a schema-driven reference reader over generated values; pure (DESIGN §7)",
"C13":"persistence and diff of schema values: pure function of a tree and a format version (DESIGN §7)",
"C17":"introspection by a single-threaded navigator; the command history is an argument list, no schedule/fault/crash (DESIGN §7)",
"C18":"writing an older version and reading it with the older definition is a pure function of (definitions, versions, value) (DESIGN §7)",
}
PENDING = {k:"not claimed yet: its simulation engine is still under construction in this session (planned: DESIGN §6)" for k in ["C16"]}
CHECKS = {
"C08": dict(engine="simio", cat="exploration", ref="DESIGN §5 (C08)", technique="deterministic simulation: seeded fault injection on the Read/Write seams (short transfers, EINTR, Ok(0), transient/permanent errors, flush errors) + per-offset single-fault enumeration, judged against the fault-free run",
  text="Seeded search over explicit device plans for save and load on five containers with per-run randomised crypto chunk size; plus, per sampled small file, every byte offset as the position of a single hard error / EINTR / 1-byte transfer. Exploration: a clean batch is evidence, not proof.",
  note="Trusted: the simulated device models what std::io permits (benign devices make progress; Interrupted has a retry contract for read/write only); equality is against the fault-free run of the same build; nonce and chunk size come from hooks H1/H2; bzip2 and ring run as real code. Values are drawn from an 11-type zoo, not from the type space."),
"C07": dict(engine="simio", cat="fault_enumeration", ref="DESIGN §5 (C07)", technique="deterministic simulation: enumeration of every crash point of an interrupted save (failing writer at byte k, and direct truncation at byte k) followed by a load through a noisy reader",
  text="For each sampled (type, value, container, chunk size) every cut offset k is enumerated (all k up to the tier's file-size limit, boundary neighbourhoods plus a seeded sample above it), each both as a permanently failing writer at byte k and as a direct truncation; the image is loaded and must fail or return the original value. Real-file path (save/load_encrypted_file) for every k of small files.",
  note="Exhaustive per sampled file and single crash point only; a crash is modelled as 'what the writer accepted is durable' (no filesystem reordering below the Write seam). Ok(original) on a prefix is accepted for every container (counted and reported)."),
"C14": dict(engine="simio", cat="fault_enumeration", ref="DESIGN §5 (C14)", technique="deterministic simulation: enumeration of media faults on encrypted images (every position x every replacement value, every bit flip, every truncation, chunk drop/dup/swap/splice) and wrong keys/passwords",
  text="Per sampled encrypted file (tiny chunk sizes make even small files multi-chunk): all positions x all 255 replacement values for small files, all single-bit flips and truncations for larger ones, chunk-level drop/duplicate/swap/copy/splice-from-another-generation, all 255 wrong keys, near-miss passwords and every truncation through the real save/load_encrypted_file.",
  note="Appending bytes after the last chunk is not judged (the statement quantifies over replacements and truncations). The second generation used for splicing has its own nonce, as real files do. Exhaustive per sampled file and single fault only."),
"C06": dict(engine="simio", cat="exploration", ref="DESIGN §5 (C06)", technique="deterministic simulation: seeded media-corruption faults on valid files (bit flips, sector loss/misdirection, torn generations, truncation) with a simulator-owned allocator injecting allocation failure, structural walk of returned values, release and overflow-checking builds",
  text="SCOPED to the media-corruption half of C06's quantifier (valid files with damaged bytes); arbitrary byte strings are fuzzing and are not claimed. 1-3 placed media faults per load plus per-file enumeration of 6 single-byte faults at every position; no panic/abort except allocation failure on an absurd declared length (>= 64 x input + 1 MiB, decided by the simulated allocator from the request size alone); returned values are walked: collection lengths vs input size, bool/char/enum bit patterns via raw views, BitVec bits vs storage.",
  note="Memory safety itself is observed only through the structural walk, the overflow-checking build and process death (supervised child); Miri replay of plans is not yet wired. Known findings (bulk-path invalid bool/char/enum) are listed in known_findings.json. size_sanity_checks feature is OFF (what users get by default)."),
"C09": dict(engine="simabi", cat="exploration", ref="DESIGN §6 (C09)", technique="deterministic simulation: seeded panic injection at numbered fault points of nested ABI calls + simulator-owned executor deciding poll / spurious poll / wake / cancel schedules of boxed futures, refinement against the same plan executed without savefile-abi, drop-ledger conservation, bounded liveness after the last fault",
  text="SCOPED to the fault- and schedule-dependent clauses of C09: a panic in the implementation (or in a callback, boxed closure, boxed trait object or future poll) at any numbered point, with literal / formatted / non-string payloads; what happens to objects in flight; whether the connection stays usable; futures whose polls, wake-ups and cancellation are scheduled by the simulator. The input-space clauses (all signatures, all sizes) are exercised by the workload (sizes straddling the 64-byte inline buffer, a 64-argument method, by-reference and serialized passing) but no input-space claim is made.",
  note="Caller and implementation are compiled together (layouts trivially identical). Only handle objects are in the drop ledger. Tokens in injected messages are [A-Za-z0-9_] so that Debug-escaping cannot hide them. A stale waker (older than the latest poll's) is allowed to be ignored by the executor. Single-threaded (C16 covers threads)."),
"C15": dict(engine="simledger", cat="exploration", ref="DESIGN §6 (C15)", technique="deterministic simulation of run histories: each run of verify_compatiblity is a restart over the surviving ledger directory; results and directory contents checked against a reference model (map version -> recording revision, hand-written per-version signatures) over all ordered revision pairs and seeded histories",
  text="25 hand-written revisions in 4 chains (plain data with versioned fields / enum variants / AbiRemoved, #[async_trait], closures + boxed traits + boxed futures, and the repository's own interface whose ledger was written by an earlier build), with breaking siblings for every clause of the statement (removed method, argument count, argument type, return type, async-ness, nested closure / callback / future types, unversioned field, version-1-only break). Every ordered pair as [a,a,b,b] plus seeded histories; result must match the model, recorded files are write-once and correctly named.",
  note="No I/O fault is injected (the statement gives no expected outcome for a torn ledger file): the explored dimension is the history of restarts. Labels are hand-written signature texts. A share of thorough histories runs every step in a fresh child process."),
}
def hook_commits():
    out = subprocess.run(["git","-C","/repo","log","--format=%h %s","322d5e5..HEAD"],stdout=subprocess.PIPE,text=True).stdout.splitlines()
    return [l.split()[0] for l in out if l.split(" ",1)[1].startswith("verif hook")][::-1]
m = {"version":1,
 "setup_cmd":"./check setup",
 "hooks":{"guard":"savefile_verif (rustc cfg, not a cargo feature)","enable":"RUSTFLAGS='--cfg savefile_verif' (set by /verif/sim/.cargo/config.toml for every build of the simulators)",
   "baseline_off_cmd":"cd /repo && cargo nextest run --workspace --no-fail-fast --tool-config-file pb:/w/lib/nextest.toml --profile pb --test-threads 8 --offline || cargo test --workspace --no-fail-fast --offline",
   "source_commits":hook_commits(),"add_only":False},
 "engines":[{"name":"simledger","path":"sim/simledger","serves_properties":["C15"],"kind_free_text":"run-history simulator over a private ledger directory with a reference model"},
  {"name":"simabi","path":"sim/simabi","serves_properties":["C09"],"kind_free_text":"single-threaded peer simulator: harness implementation objects / closures / leaf futures with numbered fault points and a drop ledger on both sides of the real generated trampolines; own executor; direct-world reference"},
  {"name":"simio","path":"sim/simio","serves_properties":["C06","C07","C08","C14"],"kind_free_text":"PRNG-planned byte-device simulator over the Read/Write seams + media-fault layer + simulated allocator; process-isolated workers, explicit replayable plans, generic plan minimiser in ./check"}],
 "checks":[],
 "not_applicable":[{"property_id":k,"reason":v} for k,v in sorted({**NA,**PENDING}.items())],
 "notes":"Single entry point ./check; exit 0 held / 1 VIOLATION / 2 harness error. VERIF_SEED, VERIF_TIER, VERIF_WORKERS, VERIF_JOBS honoured. known_findings.json lists recorded (status known) and repaired (status fixed, with regression replays under regressions/) defects."}
for pid,c in sorted(CHECKS.items()):
    m["checks"].append({"property_id":pid,"quick_cmd":"./check %s quick"%pid,"thorough_cmd":"./check %s thorough"%pid,"evidence_file":"evidence/%s.json"%pid,
      "replay_cmd_template":"./check %s --replay {path}"%pid,"engine":c["engine"],
      "level_claimed":{"category":c["cat"],"text":c["text"],"design_ref":c["ref"]},"level_note":c["note"],"technique":c["technique"]})
json.dump(m,open("MANIFEST.json","w"),indent=1)
print("checks:",[c["property_id"] for c in m["checks"]],"hooks:",m["hooks"]["source_commits"])
