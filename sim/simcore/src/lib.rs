//! simcore: shared pieces of the deterministic simulators.
//!  * one-integer PRNG (SplitMix64 -> xoshiro256**), no external crate, stable across versions
//!  * per-run seed derivation
//!  * panic capture with a silent hook
//!  * journal (BEGIN/END lines, written through unbuffered so they survive an abort)
//!  * stats (counters, signature sets, samples) that merge across worker processes
//!  * FNV-1a log hash
use serde_json::{json, Map, Value};
use std::cell::RefCell;
use std::collections::{BTreeMap, BTreeSet};
use std::io::Write;

pub const DEFAULT_SEED: u64 = 20260922;

// ---------------------------------------------------------------------------------------------
// PRNG
// ---------------------------------------------------------------------------------------------
#[derive(Clone, Debug)]
pub struct Rng {
    s: [u64; 4],
}
fn splitmix(x: &mut u64) -> u64 {
    *x = x.wrapping_add(0x9E3779B97F4A7C15);
    let mut z = *x;
    z = (z ^ (z >> 30)).wrapping_mul(0xBF58476D1CE4E5B9);
    z = (z ^ (z >> 27)).wrapping_mul(0x94D049BB133111EB);
    z ^ (z >> 31)
}
/// Derive the seed of run `i` of stream `stream` from the master seed.
pub fn mix(seed: u64, stream: &str, i: u64) -> u64 {
    let mut h = seed ^ 0xA076_1D64_78BD_642F;
    for b in stream.bytes() {
        h = (h ^ b as u64).wrapping_mul(0x100000001b3);
    }
    let mut x = h ^ i.wrapping_mul(0xD6E8FEB86659FD93);
    let a = splitmix(&mut x);
    let b = splitmix(&mut x);
    a ^ b.rotate_left(17)
}
impl Rng {
    pub fn new(seed: u64) -> Rng {
        let mut x = seed;
        let s = [splitmix(&mut x), splitmix(&mut x), splitmix(&mut x), splitmix(&mut x)];
        Rng { s }
    }
    pub fn next_u64(&mut self) -> u64 {
        let result = self.s[1].wrapping_mul(5).rotate_left(7).wrapping_mul(9);
        let t = self.s[1] << 17;
        self.s[2] ^= self.s[0];
        self.s[3] ^= self.s[1];
        self.s[1] ^= self.s[2];
        self.s[0] ^= self.s[3];
        self.s[2] ^= t;
        self.s[3] = self.s[3].rotate_left(45);
        result
    }
    /// uniform in 0..n (n > 0)
    pub fn below(&mut self, n: u64) -> u64 {
        if n <= 1 {
            return 0;
        }
        // multiply-shift; bias negligible for our n
        ((self.next_u64() as u128 * n as u128) >> 64) as u64
    }
    pub fn range(&mut self, lo: u64, hi_incl: u64) -> u64 {
        lo + self.below(hi_incl - lo + 1)
    }
    pub fn chance(&mut self, num: u64, den: u64) -> bool {
        self.below(den) < num
    }
    pub fn pick<'a, T>(&mut self, xs: &'a [T]) -> &'a T {
        &xs[self.below(xs.len() as u64) as usize]
    }
    pub fn bytes(&mut self, n: usize) -> Vec<u8> {
        let mut v = Vec::with_capacity(n);
        while v.len() < n {
            let x = self.next_u64().to_le_bytes();
            let take = (n - v.len()).min(8);
            v.extend_from_slice(&x[..take]);
        }
        v
    }
}

// ---------------------------------------------------------------------------------------------
// hashing
// ---------------------------------------------------------------------------------------------
#[derive(Clone, Copy, Debug)]
pub struct Fnv(pub u64);
impl Default for Fnv {
    fn default() -> Self {
        Fnv(0xcbf29ce484222325)
    }
}
impl Fnv {
    pub fn new() -> Fnv {
        Fnv::default()
    }
    pub fn bytes(&mut self, b: &[u8]) {
        for x in b {
            self.0 = (self.0 ^ *x as u64).wrapping_mul(0x100000001b3);
        }
    }
    pub fn str(&mut self, s: &str) {
        self.bytes(s.as_bytes());
        self.bytes(&[0xff]);
    }
    pub fn u64(&mut self, v: u64) {
        self.bytes(&v.to_le_bytes());
    }
    pub fn hex(&self) -> String {
        format!("{:016x}", self.0)
    }
}
pub fn fnv_bytes(b: &[u8]) -> u64 {
    let mut f = Fnv::new();
    f.bytes(b);
    f.0
}

// ---------------------------------------------------------------------------------------------
// panic capture
// ---------------------------------------------------------------------------------------------
thread_local! {
    static LAST_PANIC: RefCell<Option<PanicInfo>> = const { RefCell::new(None) };
    static PANIC_COUNT: std::cell::Cell<u64> = const { std::cell::Cell::new(0) };
}
#[derive(Clone, Debug)]
pub struct PanicInfo {
    pub msg: String,
    pub file: String,
    pub line: u32,
}
impl PanicInfo {
    /// location with the checkout prefix removed, e.g. `savefile/src/lib.rs:1758`
    pub fn site(&self) -> String {
        // the checkout is reached through <verif>/.work/repo (a link to /repo or to a snapshot of it)
        let f = match self.file.find(".work/repo/") {
            Some(i) => &self.file[i + ".work/repo/".len()..],
            None => self.file.trim_start_matches("/repo/"),
        };
        let f = match f.find(".cargo/registry/src/") {
            Some(i) => {
                let rest = &f[i + ".cargo/registry/src/".len()..];
                match rest.find('/') {
                    Some(j) => &rest[j + 1..],
                    None => rest,
                }
            }
            None => f,
        };
        format!("{}:{}", f, self.line)
    }
    pub fn site_file(&self) -> String {
        let s = self.site();
        match s.rfind(':') {
            Some(i) => s[..i].to_string(),
            None => s,
        }
    }
}
/// Install a panic hook that prints nothing and remembers the *first* panic since the last `take_panic`.
pub fn install_silent_panic_hook() {
    std::panic::set_hook(Box::new(|info| {
        let msg = if let Some(s) = info.payload().downcast_ref::<&str>() {
            s.to_string()
        } else if let Some(s) = info.payload().downcast_ref::<String>() {
            s.clone()
        } else {
            "<non-string payload>".to_string()
        };
        let (file, line) = match info.location() {
            Some(l) => (l.file().to_string(), l.line()),
            None => ("?".to_string(), 0),
        };
        PANIC_COUNT.with(|c| c.set(c.get() + 1));
        LAST_PANIC.with(|p| {
            let mut p = p.borrow_mut();
            if p.is_none() {
                *p = Some(PanicInfo { msg, file, line });
            }
        });
    }));
}
pub fn take_panic() -> Option<PanicInfo> {
    LAST_PANIC.with(|p| p.borrow_mut().take())
}
pub fn panic_count() -> u64 {
    PANIC_COUNT.with(|c| c.get())
}
/// Run `f` under catch_unwind; Err carries the first panic's info.
pub fn guarded<T>(f: impl FnOnce() -> T) -> Result<T, PanicInfo> {
    let _ = take_panic();
    match std::panic::catch_unwind(std::panic::AssertUnwindSafe(f)) {
        Ok(v) => {
            // a panic that was caught *inside* f (should not happen in library code) is still reported
            match take_panic() {
                None => Ok(v),
                Some(_p) => Ok(v),
            }
        }
        Err(_) => Err(take_panic().unwrap_or(PanicInfo {
            msg: "<unknown>".into(),
            file: "?".into(),
            line: 0,
        })),
    }
}

// ---------------------------------------------------------------------------------------------
// journal
// ---------------------------------------------------------------------------------------------
pub struct Journal {
    f: Option<std::fs::File>,
}
impl Journal {
    pub fn open(path: Option<&str>) -> Journal {
        Journal {
            f: path.map(|p| {
                std::fs::OpenOptions::new()
                    .create(true)
                    .append(true)
                    .open(p)
                    .expect("journal open")
            }),
        }
    }
    pub fn line(&mut self, s: &str) {
        if let Some(f) = &mut self.f {
            let mut b = Vec::with_capacity(s.len() + 1);
            b.extend_from_slice(s.as_bytes());
            b.push(b'\n');
            let _ = f.write_all(&b); // File is unbuffered: one write(2); survives abort of this process
        }
    }
}

static TRACE: std::sync::Mutex<Option<std::fs::File>> = std::sync::Mutex::new(None);
/// In trace (pinpoint) mode, phase markers are appended to the journal so that the driver can tell in which
/// phase of a multi-phase evaluation a process died. No-op otherwise.
pub fn set_trace_file(path: &str) {
    let f = std::fs::OpenOptions::new().create(true).append(true).open(path).expect("trace open");
    *TRACE.lock().unwrap() = Some(f);
}
pub fn trace_line(s: &str) {
    if let Ok(mut g) = TRACE.lock() {
        if let Some(f) = g.as_mut() {
            let _ = f.write_all(format!("{}\n", s).as_bytes());
        }
    }
}

// ---------------------------------------------------------------------------------------------
// stats
// ---------------------------------------------------------------------------------------------
#[derive(Default, Debug)]
pub struct Stats {
    pub counters: BTreeMap<String, u64>,
    pub signatures: BTreeSet<String>,
    pub samples: Vec<Value>,
    pub max_samples: usize,
    pub violations: Vec<Value>,
}
impl Stats {
    pub fn new() -> Stats {
        Stats {
            max_samples: 6,
            ..Default::default()
        }
    }
    pub fn inc(&mut self, k: &str) {
        self.add(k, 1);
    }
    pub fn add(&mut self, k: &str, n: u64) {
        if let Some(c) = self.counters.get_mut(k) {
            *c += n;
        } else {
            self.counters.insert(k.to_string(), n);
        }
    }
    pub fn sig(&mut self, s: String) {
        if self.signatures.len() < 200_000 {
            self.signatures.insert(s);
        }
    }
    pub fn sample(&mut self, kind: &str, v: impl FnOnce() -> Value) {
        // keep the first sample of each kind, up to max
        if self.samples.len() >= self.max_samples {
            return;
        }
        if self.samples.iter().any(|s| s.get("kind").and_then(|k| k.as_str()) == Some(kind)) {
            return;
        }
        let mut val = v();
        if let Value::Object(m) = &mut val {
            m.insert("kind".into(), Value::String(kind.to_string()));
        }
        self.samples.push(val);
    }
    pub fn to_json(&self) -> Value {
        let mut c = Map::new();
        for (k, v) in &self.counters {
            c.insert(k.clone(), json!(v));
        }
        json!({
            "counters": Value::Object(c),
            "signatures": self.signatures.iter().cloned().collect::<Vec<_>>(),
            "samples": self.samples,
            "violations": self.violations,
        })
    }
}

// ---------------------------------------------------------------------------------------------
// small JSON helpers (plans are serde_json Values so that the generic shrinker can edit them)
// ---------------------------------------------------------------------------------------------
pub fn ju(v: &Value, k: &str) -> u64 {
    v.get(k).and_then(|x| x.as_u64()).unwrap_or(0)
}
pub fn js<'a>(v: &'a Value, k: &str) -> &'a str {
    v.get(k).and_then(|x| x.as_str()).unwrap_or("")
}
pub fn jarr<'a>(v: &'a Value, k: &str) -> &'a [Value] {
    static EMPTY: Vec<Value> = Vec::new();
    v.get(k).and_then(|x| x.as_array()).map(|x| x.as_slice()).unwrap_or(&EMPTY)
}

/// Parse `--key value` style arguments.
pub fn arg(args: &[String], key: &str) -> Option<String> {
    let mut i = 0;
    while i < args.len() {
        if args[i] == key && i + 1 < args.len() {
            return Some(args[i + 1].clone());
        }
        i += 1;
    }
    None
}
pub fn flag(args: &[String], key: &str) -> bool {
    args.iter().any(|a| a == key)
}

#[cfg(test)]
mod tests {
    use super::*;
    #[test]
    fn rng_is_stable() {
        let mut r = Rng::new(1);
        let a: Vec<u64> = (0..3).map(|_| r.next_u64()).collect();
        let mut r2 = Rng::new(1);
        let b: Vec<u64> = (0..3).map(|_| r2.next_u64()).collect();
        assert_eq!(a, b);
        assert_ne!(mix(1, "a", 0), mix(1, "a", 1));
        assert_ne!(mix(1, "a", 0), mix(1, "b", 0));
    }
}
