//! Revision chains of exported interfaces. All members of a chain share the trait NAME (the ledger's file
//! names derive from it) and live in different modules, i.e. they are what successive edits of one source
//! file would be. Every revision carries a hand-written descriptor of what it looks like at each version
//! (method name -> signature text); the reference model decides compatibility from the descriptors alone.
#![allow(dead_code, clippy::too_many_arguments)]
use savefile_abi::verify_compatiblity;
use savefile::SavefileError;

pub struct Rev {
    pub chain: &'static str,
    pub name: &'static str,
    pub latest: u32,
    /// per version: (method, signature text). Signature text spells out argument types AT THAT VERSION.
    pub view: fn(u32) -> Vec<(&'static str, &'static str)>,
    pub verify: fn(&str) -> Result<(), SavefileError>,
    /// write the ledger files of this revision the way an EARLIER RELEASE of the library wrote them (data version 1,
    /// which has no receiver-type and no async field)
    pub legacy: fn(&str) -> Result<(), SavefileError>,
    /// how this revision differs from its predecessor in the chain (documentation for evidence / replays)
    pub edit: &'static str,
}

// ------------------------------------------------------------------------------------------------
// chain "plain": trait Ledger
// ------------------------------------------------------------------------------------------------
pub mod plain_r0 {
    use savefile_derive::{savefile_abi_exportable, Savefile};
    #[derive(Savefile)]
    pub struct Point {
        pub x: u32,
    }
    #[derive(Savefile)]
    pub enum Kind {
        A,
        B,
    }
    #[savefile_abi_exportable(version = 0)]
    pub trait Ledger {
        fn add(&self, x: u32, y: u32) -> u32;
        fn name(&self) -> String;
        fn put(&self, p: Point) -> u32;
        fn kind(&self, k: Kind) -> u8;
    }
}
pub mod plain_r1 {
    // compatible: new method, new versioned field
    use savefile_derive::{savefile_abi_exportable, Savefile};
    #[derive(Savefile)]
    pub struct Point {
        pub x: u32,
        #[savefile_versions = "1.."]
        pub y: u32,
    }
    #[derive(Savefile)]
    pub enum Kind {
        A,
        B,
    }
    #[savefile_abi_exportable(version = 1)]
    pub trait Ledger {
        fn add(&self, x: u32, y: u32) -> u32;
        fn name(&self) -> String;
        fn put(&self, p: Point) -> u32;
        fn kind(&self, k: Kind) -> u8;
        fn sub(&self, x: u32, y: u32) -> u32;
    }
}
pub mod plain_r2 {
    // compatible: new enum variant (versioned), a field removed with AbiRemoved, another new method
    use savefile::prelude::*;
    use savefile_derive::{savefile_abi_exportable, Savefile};
    #[derive(Savefile)]
    pub struct Point {
        pub x: u32,
        #[savefile_versions = "1..1"]
        pub y: AbiRemoved<u32>,
        #[savefile_versions = "2.."]
        pub z: u64,
    }
    #[derive(Savefile)]
    pub enum Kind {
        A,
        B,
        #[savefile_versions = "2.."]
        C,
    }
    #[savefile_abi_exportable(version = 2)]
    pub trait Ledger {
        fn add(&self, x: u32, y: u32) -> u32;
        fn name(&self) -> String;
        fn put(&self, p: Point) -> u32;
        fn kind(&self, k: Kind) -> u8;
        fn sub(&self, x: u32, y: u32) -> u32;
        fn mul(&self, x: u32, y: u32) -> u64;
    }
}
pub mod plain_b_removed {
    // BREAKING sibling of r1: method `name` removed
    use savefile_derive::{savefile_abi_exportable, Savefile};
    #[derive(Savefile)]
    pub struct Point {
        pub x: u32,
        #[savefile_versions = "1.."]
        pub y: u32,
    }
    #[derive(Savefile)]
    pub enum Kind {
        A,
        B,
    }
    #[savefile_abi_exportable(version = 1)]
    pub trait Ledger {
        fn add(&self, x: u32, y: u32) -> u32;
        fn put(&self, p: Point) -> u32;
        fn kind(&self, k: Kind) -> u8;
        fn sub(&self, x: u32, y: u32) -> u32;
    }
}
pub mod plain_b_argcount {
    // BREAKING sibling of r1: `add` takes one more argument
    use savefile_derive::{savefile_abi_exportable, Savefile};
    #[derive(Savefile)]
    pub struct Point {
        pub x: u32,
        #[savefile_versions = "1.."]
        pub y: u32,
    }
    #[derive(Savefile)]
    pub enum Kind {
        A,
        B,
    }
    #[savefile_abi_exportable(version = 1)]
    pub trait Ledger {
        fn add(&self, x: u32, y: u32, z: u32) -> u32;
        fn name(&self) -> String;
        fn put(&self, p: Point) -> u32;
        fn kind(&self, k: Kind) -> u8;
        fn sub(&self, x: u32, y: u32) -> u32;
    }
}
pub mod plain_b_argtype {
    // BREAKING sibling of r1: second argument of `sub`... no: of `add` changes type (in the LAST method position
    // checked first? no - `add` is the first recorded method); a second variant below changes a later method
    use savefile_derive::{savefile_abi_exportable, Savefile};
    #[derive(Savefile)]
    pub struct Point {
        pub x: u32,
        #[savefile_versions = "1.."]
        pub y: u32,
    }
    #[derive(Savefile)]
    pub enum Kind {
        A,
        B,
    }
    #[savefile_abi_exportable(version = 1)]
    pub trait Ledger {
        fn add(&self, x: u32, y: u64) -> u32;
        fn name(&self) -> String;
        fn put(&self, p: Point) -> u32;
        fn kind(&self, k: Kind) -> u8;
        fn sub(&self, x: u32, y: u32) -> u32;
    }
}
pub mod plain_b_rettype {
    // BREAKING sibling of r1: return type of the LAST recorded v0 method changes
    use savefile_derive::{savefile_abi_exportable, Savefile};
    #[derive(Savefile)]
    pub struct Point {
        pub x: u32,
        #[savefile_versions = "1.."]
        pub y: u32,
    }
    #[derive(Savefile)]
    pub enum Kind {
        A,
        B,
    }
    #[savefile_abi_exportable(version = 1)]
    pub trait Ledger {
        fn add(&self, x: u32, y: u32) -> u32;
        fn name(&self) -> String;
        fn put(&self, p: Point) -> u32;
        fn kind(&self, k: Kind) -> u16;
        fn sub(&self, x: u32, y: u32) -> u32;
    }
}
pub mod plain_b_unversioned_field {
    // BREAKING sibling of r1: the new field was added WITHOUT a version range, so version 0 changes too
    use savefile_derive::{savefile_abi_exportable, Savefile};
    #[derive(Savefile)]
    pub struct Point {
        pub x: u32,
        pub y: u32,
    }
    #[derive(Savefile)]
    pub enum Kind {
        A,
        B,
    }
    #[savefile_abi_exportable(version = 1)]
    pub trait Ledger {
        fn add(&self, x: u32, y: u32) -> u32;
        fn name(&self) -> String;
        fn put(&self, p: Point) -> u32;
        fn kind(&self, k: Kind) -> u8;
        fn sub(&self, x: u32, y: u32) -> u32;
    }
}
pub mod plain_b_v1_only {
    // sibling of r2 that is compatible with recorded version 0 but BREAKS recorded version 1:
    // the field added in version 1 changes its type
    use savefile::prelude::*;
    use savefile_derive::{savefile_abi_exportable, Savefile};
    #[derive(Savefile)]
    pub struct Point {
        pub x: u32,
        #[savefile_versions = "1..1"]
        pub y: AbiRemoved<u16>,
        #[savefile_versions = "2.."]
        pub z: u64,
    }
    #[derive(Savefile)]
    pub enum Kind {
        A,
        B,
        #[savefile_versions = "2.."]
        C,
    }
    #[savefile_abi_exportable(version = 2)]
    pub trait Ledger {
        fn add(&self, x: u32, y: u32) -> u32;
        fn name(&self) -> String;
        fn put(&self, p: Point) -> u32;
        fn kind(&self, k: Kind) -> u8;
        fn sub(&self, x: u32, y: u32) -> u32;
        fn mul(&self, x: u32, y: u32) -> u64;
    }
}
pub mod plain_b_variant_renamed {
    // BREAKING sibling of r1: an enum variant of an argument type is renamed (variant names are significant)
    use savefile_derive::{savefile_abi_exportable, Savefile};
    #[derive(Savefile)]
    pub struct Point {
        pub x: u32,
        #[savefile_versions = "1.."]
        pub y: u32,
    }
    #[derive(Savefile)]
    pub enum Kind {
        A,
        Bee,
    }
    #[savefile_abi_exportable(version = 1)]
    pub trait Ledger {
        fn add(&self, x: u32, y: u32) -> u32;
        fn name(&self) -> String;
        fn put(&self, p: Point) -> u32;
        fn kind(&self, k: Kind) -> u8;
        fn sub(&self, x: u32, y: u32) -> u32;
    }
}

pub mod plain_r1_reordered {
    // COMPATIBLE sibling of r1: the same methods, declared in another order (methods are matched by name)
    use savefile_derive::{savefile_abi_exportable, Savefile};
    #[derive(Savefile)]
    pub struct Point {
        pub x: u32,
        #[savefile_versions = "1.."]
        pub y: u32,
    }
    #[derive(Savefile)]
    pub enum Kind {
        A,
        B,
    }
    #[savefile_abi_exportable(version = 1)]
    pub trait Ledger {
        fn sub(&self, x: u32, y: u32) -> u32;
        fn kind(&self, k: Kind) -> u8;
        fn name(&self) -> String;
        fn add(&self, x: u32, y: u32) -> u32;
        fn put(&self, p: Point) -> u32;
    }
}
pub mod plain_b_renamed {
    // BREAKING sibling of r1: method `add` renamed to `plus` (same position, same signature): `add` is gone
    use savefile_derive::{savefile_abi_exportable, Savefile};
    #[derive(Savefile)]
    pub struct Point {
        pub x: u32,
        #[savefile_versions = "1.."]
        pub y: u32,
    }
    #[derive(Savefile)]
    pub enum Kind {
        A,
        B,
    }
    #[savefile_abi_exportable(version = 1)]
    pub trait Ledger {
        fn plus(&self, x: u32, y: u32) -> u32;
        fn name(&self) -> String;
        fn put(&self, p: Point) -> u32;
        fn kind(&self, k: Kind) -> u8;
        fn sub(&self, x: u32, y: u32) -> u32;
    }
}
pub mod plain_b_swapped_names {
    // BREAKING sibling of r1: `add` and `sub` keep their positions but `name` and `put` swap NAMES (so the method
    // count and every position's signature set is unchanged, but name -> signature is not)
    use savefile_derive::{savefile_abi_exportable, Savefile};
    #[derive(Savefile)]
    pub struct Point {
        pub x: u32,
        #[savefile_versions = "1.."]
        pub y: u32,
    }
    #[derive(Savefile)]
    pub enum Kind {
        A,
        B,
    }
    #[savefile_abi_exportable(version = 1)]
    pub trait Ledger {
        fn add(&self, x: u32, y: u32) -> u32;
        fn put(&self) -> String;
        fn name(&self, p: Point) -> u32;
        fn kind(&self, k: Kind) -> u8;
        fn sub(&self, x: u32, y: u32) -> u32;
    }
}
pub mod plain_b_variant_inserted {
    // BREAKING sibling of r1: a variant that exists from version 1 is inserted BEFORE an existing variant: at version 0
    // the variant names are unchanged but Kind::B's wire tag moves from 1 to 2
    use savefile_derive::{savefile_abi_exportable, Savefile};
    #[derive(Savefile)]
    pub struct Point {
        pub x: u32,
        #[savefile_versions = "1.."]
        pub y: u32,
    }
    #[derive(Savefile)]
    pub enum Kind {
        A,
        #[savefile_versions = "1.."]
        Mid,
        B,
    }
    #[savefile_abi_exportable(version = 1)]
    pub trait Ledger {
        fn add(&self, x: u32, y: u32) -> u32;
        fn name(&self) -> String;
        fn put(&self, p: Point) -> u32;
        fn kind(&self, k: Kind) -> u8;
        fn sub(&self, x: u32, y: u32) -> u32;
    }
}
pub mod plain_r1_variant_appended {
    // COMPATIBLE sibling of r1: a variant that exists from version 1 is APPENDED (existing tags keep their values)
    use savefile_derive::{savefile_abi_exportable, Savefile};
    #[derive(Savefile)]
    pub struct Point {
        pub x: u32,
        #[savefile_versions = "1.."]
        pub y: u32,
    }
    #[derive(Savefile)]
    pub enum Kind {
        A,
        B,
        #[savefile_versions = "1.."]
        Last,
    }
    #[savefile_abi_exportable(version = 1)]
    pub trait Ledger {
        fn add(&self, x: u32, y: u32) -> u32;
        fn name(&self) -> String;
        fn put(&self, p: Point) -> u32;
        fn kind(&self, k: Kind) -> u8;
        fn sub(&self, x: u32, y: u32) -> u32;
    }
}

pub mod plain_b_canary {
    // BREAKING sibling of r1: the second argument of `add` becomes savefile::Canary1 (a library type whose schema
    // presents itself under the primitive name "u32")
    use savefile_derive::{savefile_abi_exportable, Savefile};
    #[derive(Savefile)]
    pub struct Point {
        pub x: u32,
        #[savefile_versions = "1.."]
        pub y: u32,
    }
    #[derive(Savefile)]
    pub enum Kind {
        A,
        B,
    }
    #[savefile_abi_exportable(version = 1)]
    pub trait Ledger {
        fn add(&self, x: u32, y: savefile::Canary1) -> u32;
        fn name(&self) -> String;
        fn put(&self, p: Point) -> u32;
        fn kind(&self, k: Kind) -> u8;
        fn sub(&self, x: u32, y: u32) -> u32;
    }
}
// ------------------------------------------------------------------------------------------------
// chain "recv": trait RLedger - methods with &self and &mut self receivers (the receiver type is one of the
// things the current ledger format records and the earlier one could not)
// ------------------------------------------------------------------------------------------------
pub mod recv_r0 {
    use savefile_derive::savefile_abi_exportable;
    #[savefile_abi_exportable(version = 0)]
    pub trait RLedger {
        fn get(&self) -> u32;
        fn inc(&mut self, by: u32) -> u32;
        fn reset(&mut self);
    }
}
pub mod recv_r1 {
    use savefile_derive::savefile_abi_exportable;
    #[savefile_abi_exportable(version = 1)]
    pub trait RLedger {
        fn get(&self) -> u32;
        fn inc(&mut self, by: u32) -> u32;
        fn reset(&mut self);
        fn dec(&mut self, by: u32) -> u32;
    }
}
pub mod recv_b_argtype {
    use savefile_derive::savefile_abi_exportable;
    #[savefile_abi_exportable(version = 0)]
    pub trait RLedger {
        fn get(&self) -> u32;
        fn inc(&mut self, by: u64) -> u32;
        fn reset(&mut self);
    }
}
fn recv_view_r0(_v: u32) -> Vec<(&'static str, &'static str)> {
    vec![("get", "()->u32"), ("inc", "(u32)->u32"), ("reset", "()->()")]
}
fn recv_view_r1(v: u32) -> Vec<(&'static str, &'static str)> {
    let mut m = recv_view_r0(v);
    m.push(("dec", "(u32)->u32"));
    m
}
fn recv_view_b_argtype(_v: u32) -> Vec<(&'static str, &'static str)> {
    vec![("get", "()->u32"), ("inc", "(u64)->u32"), ("reset", "()->()")]
}
fn plain_view_b_canary(v: u32) -> Vec<(&'static str, &'static str)> {
    plain_view_r1(v).into_iter().map(|m| if m.0 == "add" { ("add", "(u32,Canary1)->u32") } else { m }).collect()
}

pub mod plain_b_ret_unit {
    // BREAKING sibling of r1: `kind` no longer returns anything
    use savefile_derive::{savefile_abi_exportable, Savefile};
    #[derive(Savefile)]
    pub struct Point {
        pub x: u32,
        #[savefile_versions = "1.."]
        pub y: u32,
    }
    #[derive(Savefile)]
    pub enum Kind {
        A,
        B,
    }
    #[savefile_abi_exportable(version = 1)]
    pub trait Ledger {
        fn add(&self, x: u32, y: u32) -> u32;
        fn name(&self) -> String;
        fn put(&self, p: Point) -> u32;
        fn kind(&self, k: Kind);
        fn sub(&self, x: u32, y: u32) -> u32;
    }
}
fn plain_view_b_ret_unit(v: u32) -> Vec<(&'static str, &'static str)> {
    plain_view_r1(v).into_iter().map(|m| if m.0 == "kind" { ("kind", "(Kind{A,B})->()") } else { m }).collect()
}
// ------------------------------------------------------------------------------------------------
// chain "big": trait GLedger - an enum without a repr attribute at the edge of a one-byte discriminant
// ------------------------------------------------------------------------------------------------
pub mod big_r0 {
    use savefile_derive::{savefile_abi_exportable, Savefile};
    #[derive(Savefile)]
    pub enum Big {
        V0,
        V1,
        V2,
        V3,
        V4,
        V5,
        V6,
        V7,
        V8,
        V9,
        V10,
        V11,
        V12,
        V13,
        V14,
        V15,
        V16,
        V17,
        V18,
        V19,
        V20,
        V21,
        V22,
        V23,
        V24,
        V25,
        V26,
        V27,
        V28,
        V29,
        V30,
        V31,
        V32,
        V33,
        V34,
        V35,
        V36,
        V37,
        V38,
        V39,
        V40,
        V41,
        V42,
        V43,
        V44,
        V45,
        V46,
        V47,
        V48,
        V49,
        V50,
        V51,
        V52,
        V53,
        V54,
        V55,
        V56,
        V57,
        V58,
        V59,
        V60,
        V61,
        V62,
        V63,
        V64,
        V65,
        V66,
        V67,
        V68,
        V69,
        V70,
        V71,
        V72,
        V73,
        V74,
        V75,
        V76,
        V77,
        V78,
        V79,
        V80,
        V81,
        V82,
        V83,
        V84,
        V85,
        V86,
        V87,
        V88,
        V89,
        V90,
        V91,
        V92,
        V93,
        V94,
        V95,
        V96,
        V97,
        V98,
        V99,
        V100,
        V101,
        V102,
        V103,
        V104,
        V105,
        V106,
        V107,
        V108,
        V109,
        V110,
        V111,
        V112,
        V113,
        V114,
        V115,
        V116,
        V117,
        V118,
        V119,
        V120,
        V121,
        V122,
        V123,
        V124,
        V125,
        V126,
        V127,
        V128,
        V129,
        V130,
        V131,
        V132,
        V133,
        V134,
        V135,
        V136,
        V137,
        V138,
        V139,
        V140,
        V141,
        V142,
        V143,
        V144,
        V145,
        V146,
        V147,
        V148,
        V149,
        V150,
        V151,
        V152,
        V153,
        V154,
        V155,
        V156,
        V157,
        V158,
        V159,
        V160,
        V161,
        V162,
        V163,
        V164,
        V165,
        V166,
        V167,
        V168,
        V169,
        V170,
        V171,
        V172,
        V173,
        V174,
        V175,
        V176,
        V177,
        V178,
        V179,
        V180,
        V181,
        V182,
        V183,
        V184,
        V185,
        V186,
        V187,
        V188,
        V189,
        V190,
        V191,
        V192,
        V193,
        V194,
        V195,
        V196,
        V197,
        V198,
        V199,
        V200,
        V201,
        V202,
        V203,
        V204,
        V205,
        V206,
        V207,
        V208,
        V209,
        V210,
        V211,
        V212,
        V213,
        V214,
        V215,
        V216,
        V217,
        V218,
        V219,
        V220,
        V221,
        V222,
        V223,
        V224,
        V225,
        V226,
        V227,
        V228,
        V229,
        V230,
        V231,
        V232,
        V233,
        V234,
        V235,
        V236,
        V237,
        V238,
        V239,
        V240,
        V241,
        V242,
        V243,
        V244,
        V245,
        V246,
        V247,
        V248,
        V249,
        V250,
        V251,
        V252,
        V253,
        V254,
        V255,
    }
    #[savefile_abi_exportable(version = 0)]
    pub trait GLedger {
        fn e(&self, x: Big) -> u8;
    }
}
pub mod big_r1 {
    // compatible: a new method
    use savefile_derive::{savefile_abi_exportable, Savefile};
    #[derive(Savefile)]
    pub enum Big {
        V0,
        V1,
        V2,
        V3,
        V4,
        V5,
        V6,
        V7,
        V8,
        V9,
        V10,
        V11,
        V12,
        V13,
        V14,
        V15,
        V16,
        V17,
        V18,
        V19,
        V20,
        V21,
        V22,
        V23,
        V24,
        V25,
        V26,
        V27,
        V28,
        V29,
        V30,
        V31,
        V32,
        V33,
        V34,
        V35,
        V36,
        V37,
        V38,
        V39,
        V40,
        V41,
        V42,
        V43,
        V44,
        V45,
        V46,
        V47,
        V48,
        V49,
        V50,
        V51,
        V52,
        V53,
        V54,
        V55,
        V56,
        V57,
        V58,
        V59,
        V60,
        V61,
        V62,
        V63,
        V64,
        V65,
        V66,
        V67,
        V68,
        V69,
        V70,
        V71,
        V72,
        V73,
        V74,
        V75,
        V76,
        V77,
        V78,
        V79,
        V80,
        V81,
        V82,
        V83,
        V84,
        V85,
        V86,
        V87,
        V88,
        V89,
        V90,
        V91,
        V92,
        V93,
        V94,
        V95,
        V96,
        V97,
        V98,
        V99,
        V100,
        V101,
        V102,
        V103,
        V104,
        V105,
        V106,
        V107,
        V108,
        V109,
        V110,
        V111,
        V112,
        V113,
        V114,
        V115,
        V116,
        V117,
        V118,
        V119,
        V120,
        V121,
        V122,
        V123,
        V124,
        V125,
        V126,
        V127,
        V128,
        V129,
        V130,
        V131,
        V132,
        V133,
        V134,
        V135,
        V136,
        V137,
        V138,
        V139,
        V140,
        V141,
        V142,
        V143,
        V144,
        V145,
        V146,
        V147,
        V148,
        V149,
        V150,
        V151,
        V152,
        V153,
        V154,
        V155,
        V156,
        V157,
        V158,
        V159,
        V160,
        V161,
        V162,
        V163,
        V164,
        V165,
        V166,
        V167,
        V168,
        V169,
        V170,
        V171,
        V172,
        V173,
        V174,
        V175,
        V176,
        V177,
        V178,
        V179,
        V180,
        V181,
        V182,
        V183,
        V184,
        V185,
        V186,
        V187,
        V188,
        V189,
        V190,
        V191,
        V192,
        V193,
        V194,
        V195,
        V196,
        V197,
        V198,
        V199,
        V200,
        V201,
        V202,
        V203,
        V204,
        V205,
        V206,
        V207,
        V208,
        V209,
        V210,
        V211,
        V212,
        V213,
        V214,
        V215,
        V216,
        V217,
        V218,
        V219,
        V220,
        V221,
        V222,
        V223,
        V224,
        V225,
        V226,
        V227,
        V228,
        V229,
        V230,
        V231,
        V232,
        V233,
        V234,
        V235,
        V236,
        V237,
        V238,
        V239,
        V240,
        V241,
        V242,
        V243,
        V244,
        V245,
        V246,
        V247,
        V248,
        V249,
        V250,
        V251,
        V252,
        V253,
        V254,
        V255,
    }
    #[savefile_abi_exportable(version = 1)]
    pub trait GLedger {
        fn e(&self, x: Big) -> u8;
        fn f(&self, x: u32) -> u32;
    }
}
pub mod big_b_257 {
    // BREAKING: a 257th variant (existing from version 1 on) makes the discriminant two bytes wide - for version 0 too
    use savefile_derive::{savefile_abi_exportable, Savefile};
    #[derive(Savefile)]
    pub enum Big {
        V0,
        V1,
        V2,
        V3,
        V4,
        V5,
        V6,
        V7,
        V8,
        V9,
        V10,
        V11,
        V12,
        V13,
        V14,
        V15,
        V16,
        V17,
        V18,
        V19,
        V20,
        V21,
        V22,
        V23,
        V24,
        V25,
        V26,
        V27,
        V28,
        V29,
        V30,
        V31,
        V32,
        V33,
        V34,
        V35,
        V36,
        V37,
        V38,
        V39,
        V40,
        V41,
        V42,
        V43,
        V44,
        V45,
        V46,
        V47,
        V48,
        V49,
        V50,
        V51,
        V52,
        V53,
        V54,
        V55,
        V56,
        V57,
        V58,
        V59,
        V60,
        V61,
        V62,
        V63,
        V64,
        V65,
        V66,
        V67,
        V68,
        V69,
        V70,
        V71,
        V72,
        V73,
        V74,
        V75,
        V76,
        V77,
        V78,
        V79,
        V80,
        V81,
        V82,
        V83,
        V84,
        V85,
        V86,
        V87,
        V88,
        V89,
        V90,
        V91,
        V92,
        V93,
        V94,
        V95,
        V96,
        V97,
        V98,
        V99,
        V100,
        V101,
        V102,
        V103,
        V104,
        V105,
        V106,
        V107,
        V108,
        V109,
        V110,
        V111,
        V112,
        V113,
        V114,
        V115,
        V116,
        V117,
        V118,
        V119,
        V120,
        V121,
        V122,
        V123,
        V124,
        V125,
        V126,
        V127,
        V128,
        V129,
        V130,
        V131,
        V132,
        V133,
        V134,
        V135,
        V136,
        V137,
        V138,
        V139,
        V140,
        V141,
        V142,
        V143,
        V144,
        V145,
        V146,
        V147,
        V148,
        V149,
        V150,
        V151,
        V152,
        V153,
        V154,
        V155,
        V156,
        V157,
        V158,
        V159,
        V160,
        V161,
        V162,
        V163,
        V164,
        V165,
        V166,
        V167,
        V168,
        V169,
        V170,
        V171,
        V172,
        V173,
        V174,
        V175,
        V176,
        V177,
        V178,
        V179,
        V180,
        V181,
        V182,
        V183,
        V184,
        V185,
        V186,
        V187,
        V188,
        V189,
        V190,
        V191,
        V192,
        V193,
        V194,
        V195,
        V196,
        V197,
        V198,
        V199,
        V200,
        V201,
        V202,
        V203,
        V204,
        V205,
        V206,
        V207,
        V208,
        V209,
        V210,
        V211,
        V212,
        V213,
        V214,
        V215,
        V216,
        V217,
        V218,
        V219,
        V220,
        V221,
        V222,
        V223,
        V224,
        V225,
        V226,
        V227,
        V228,
        V229,
        V230,
        V231,
        V232,
        V233,
        V234,
        V235,
        V236,
        V237,
        V238,
        V239,
        V240,
        V241,
        V242,
        V243,
        V244,
        V245,
        V246,
        V247,
        V248,
        V249,
        V250,
        V251,
        V252,
        V253,
        V254,
        V255,
        #[savefile_versions = "1.."]
        V256,
    }
    #[savefile_abi_exportable(version = 1)]
    pub trait GLedger {
        fn e(&self, x: Big) -> u8;
    }
}
fn big_view_r0(_v: u32) -> Vec<(&'static str, &'static str)> {
    vec![("e", "(Big{256 variants, 1-byte tag})->u8")]
}
fn big_view_r1(_v: u32) -> Vec<(&'static str, &'static str)> {
    vec![("e", "(Big{256 variants, 1-byte tag})->u8"), ("f", "(u32)->u32")]
}
fn big_view_b_257(v: u32) -> Vec<(&'static str, &'static str)> {
    vec![("e", if v == 0 { "(Big{256 variants, 2-byte tag})->u8" } else { "(Big{257 variants, 2-byte tag})->u8" })]
}

fn plain_view_r0(_v: u32) -> Vec<(&'static str, &'static str)> {
    vec![("add", "(u32,u32)->u32"), ("name", "()->String"), ("put", "(Point{x:u32})->u32"), ("kind", "(Kind{A,B})->u8")]
}
fn plain_view_r1(v: u32) -> Vec<(&'static str, &'static str)> {
    let put = if v == 0 { "(Point{x:u32})->u32" } else { "(Point{x:u32,y:u32})->u32" };
    vec![("add", "(u32,u32)->u32"), ("name", "()->String"), ("put", put), ("kind", "(Kind{A,B})->u8"), ("sub", "(u32,u32)->u32")]
}
fn plain_view_r2(v: u32) -> Vec<(&'static str, &'static str)> {
    let put = match v {
        0 => "(Point{x:u32})->u32",
        1 => "(Point{x:u32,y:u32})->u32",
        _ => "(Point{x:u32,z:u64})->u32",
    };
    let kind = if v >= 2 { "(Kind{A,B,C})->u8" } else { "(Kind{A,B})->u8" };
    vec![("add", "(u32,u32)->u32"), ("name", "()->String"), ("put", put), ("kind", kind), ("sub", "(u32,u32)->u32"), ("mul", "(u32,u32)->u64")]
}
fn plain_view_b_removed(v: u32) -> Vec<(&'static str, &'static str)> {
    plain_view_r1(v).into_iter().filter(|m| m.0 != "name").collect()
}
fn plain_view_b_argcount(v: u32) -> Vec<(&'static str, &'static str)> {
    plain_view_r1(v).into_iter().map(|m| if m.0 == "add" { ("add", "(u32,u32,u32)->u32") } else { m }).collect()
}
fn plain_view_b_argtype(v: u32) -> Vec<(&'static str, &'static str)> {
    plain_view_r1(v).into_iter().map(|m| if m.0 == "add" { ("add", "(u32,u64)->u32") } else { m }).collect()
}
fn plain_view_b_rettype(v: u32) -> Vec<(&'static str, &'static str)> {
    plain_view_r1(v).into_iter().map(|m| if m.0 == "kind" { ("kind", "(Kind{A,B})->u16") } else { m }).collect()
}
fn plain_view_b_unversioned(v: u32) -> Vec<(&'static str, &'static str)> {
    plain_view_r1(v).into_iter().map(|m| if m.0 == "put" { ("put", "(Point{x:u32,y:u32})->u32") } else { m }).collect()
}
fn plain_view_b_v1_only(v: u32) -> Vec<(&'static str, &'static str)> {
    plain_view_r2(v).into_iter().map(|m| if m.0 == "put" && v == 1 { ("put", "(Point{x:u32,y:u16})->u32") } else { m }).collect()
}
fn plain_view_b_variant(v: u32) -> Vec<(&'static str, &'static str)> {
    plain_view_r1(v).into_iter().map(|m| if m.0 == "kind" { ("kind", "(Kind{A,Bee})->u8") } else { m }).collect()
}

fn plain_view_b_renamed(v: u32) -> Vec<(&'static str, &'static str)> {
    plain_view_r1(v).into_iter().map(|m| if m.0 == "add" { ("plus", m.1) } else { m }).collect()
}
fn plain_view_b_swapped_names(v: u32) -> Vec<(&'static str, &'static str)> {
    plain_view_r1(v).into_iter().map(|m| if m.0 == "name" { ("put", m.1) } else if m.0 == "put" { ("name", m.1) } else { m }).collect()
}
fn plain_view_b_variant_inserted(v: u32) -> Vec<(&'static str, &'static str)> {
    // the wire tag is part of what a peer at that version sees
    plain_view_r1(v).into_iter().map(|m| if m.0 == "kind" { ("kind", if v == 0 { "(Kind{A=0,B=2})->u8" } else { "(Kind{A=0,Mid=1,B=2})->u8" }) } else { m }).collect()
}
fn plain_view_r1_variant_appended(v: u32) -> Vec<(&'static str, &'static str)> {
    plain_view_r1(v).into_iter().map(|m| if m.0 == "kind" && v >= 1 { ("kind", "(Kind{A,B,Last})->u8") } else { m }).collect()
}

// ------------------------------------------------------------------------------------------------
// chain "async": trait ALedger (async_trait methods and boxed-future returns)
// ------------------------------------------------------------------------------------------------
pub mod async_r0 {
    use async_trait::async_trait;
    use savefile_derive::{savefile_abi_exportable, Savefile};
    #[derive(Savefile)]
    pub struct Report {
        pub a: u32,
    }
    #[async_trait]
    #[savefile_abi_exportable(version = 0)]
    pub trait ALedger {
        async fn report(&self) -> Report;
        async fn get(&self, x: u32) -> u32;
        async fn set(&mut self, x: u32, y: String) -> bool;
        fn plain(&self, x: u32) -> u32;
    }
}
pub mod async_r1 {
    // compatible: one more async method, and the OUTPUT of an async method gains a versioned field
    use async_trait::async_trait;
    use savefile_derive::{savefile_abi_exportable, Savefile};
    #[derive(Savefile)]
    pub struct Report {
        pub a: u32,
        #[savefile_versions = "1.."]
        pub b: u32,
    }
    #[async_trait]
    #[savefile_abi_exportable(version = 1)]
    pub trait ALedger {
        async fn report(&self) -> Report;
        async fn get(&self, x: u32) -> u32;
        async fn set(&mut self, x: u32, y: String) -> bool;
        fn plain(&self, x: u32) -> u32;
        async fn more(&self, x: u64) -> u64;
    }
}
pub mod async_b_sync {
    #[derive(savefile_derive::Savefile)]
    pub struct Report {
        pub a: u32,
    }
    // BREAKING sibling of r0: `get` is no longer async
    use async_trait::async_trait;
    use savefile_derive::savefile_abi_exportable;
    #[async_trait]
    #[savefile_abi_exportable(version = 0)]
    pub trait ALedger {
        async fn report(&self) -> Report;
        fn get(&self, x: u32) -> u32;
        async fn set(&mut self, x: u32, y: String) -> bool;
        fn plain(&self, x: u32) -> u32;
    }
}
pub mod async_b_argtype {
    #[derive(savefile_derive::Savefile)]
    pub struct Report {
        pub a: u32,
    }
    // BREAKING sibling of r0: argument type of an async method changes
    use async_trait::async_trait;
    use savefile_derive::savefile_abi_exportable;
    #[async_trait]
    #[savefile_abi_exportable(version = 0)]
    pub trait ALedger {
        async fn report(&self) -> Report;
        async fn get(&self, x: u32) -> u32;
        async fn set(&mut self, x: u32, y: u64) -> bool;
        fn plain(&self, x: u32) -> u32;
    }
}
fn async_view_r0(_v: u32) -> Vec<(&'static str, &'static str)> {
    vec![("report", "async()->Report{a}"), ("get", "async(u32)->u32"), ("set", "async mut(u32,String)->bool"), ("plain", "(u32)->u32")]
}
fn async_view_r1(v: u32) -> Vec<(&'static str, &'static str)> {
    let mut m: Vec<(&'static str, &'static str)> = async_view_r0(v).into_iter().map(|m| if m.0 == "report" && v >= 1 { ("report", "async()->Report{a,b}") } else { m }).collect();
    m.push(("more", "async(u64)->u64"));
    m
}
fn async_view_b_sync(v: u32) -> Vec<(&'static str, &'static str)> {
    async_view_r0(v).into_iter().map(|m| if m.0 == "get" { ("get", "(u32)->u32") } else { m }).collect()
}
fn async_view_b_argtype(v: u32) -> Vec<(&'static str, &'static str)> {
    async_view_r0(v).into_iter().map(|m| if m.0 == "set" { ("set", "async mut(u32,u64)->bool") } else { m }).collect()
}

// ------------------------------------------------------------------------------------------------
// chain "objs": trait OLedger (closures, boxed traits, boxed futures)
// ------------------------------------------------------------------------------------------------
pub mod objs_r0 {
    use savefile_derive::savefile_abi_exportable;
    use std::future::Future;
    use std::pin::Pin;
    #[savefile_abi_exportable(version = 0)]
    pub trait OCallback {
        fn hit(&self, x: u32) -> u32;
        fn second(&self, a: u16, b: String) -> u8;
        fn third(&self) -> u64;
    }
    #[savefile_abi_exportable(version = 0)]
    pub trait OLedger {
        fn with_fn(&self, f: &dyn Fn(u32) -> u32) -> u32;
        fn with_boxed(&self, f: Box<dyn Fn(u32, String) -> u32 + Send + Sync>) -> u32;
        fn with_obj(&self, o: Box<dyn OCallback>) -> u32;
        fn make(&self) -> Box<dyn OCallback>;
        fn later(&self, x: u32) -> Pin<Box<dyn Future<Output = u32>>>;
    }
}
pub mod objs_r1 {
    // compatible: new methods only
    use savefile_derive::savefile_abi_exportable;
    use std::future::Future;
    use std::pin::Pin;
    #[savefile_abi_exportable(version = 0)]
    pub trait OCallback {
        fn hit(&self, x: u32) -> u32;
        fn second(&self, a: u16, b: String) -> u8;
        fn third(&self) -> u64;
    }
    #[savefile_abi_exportable(version = 1)]
    pub trait OLedger {
        fn with_fn(&self, f: &dyn Fn(u32) -> u32) -> u32;
        fn with_boxed(&self, f: Box<dyn Fn(u32, String) -> u32 + Send + Sync>) -> u32;
        fn with_obj(&self, o: Box<dyn OCallback>) -> u32;
        fn make(&self) -> Box<dyn OCallback>;
        fn later(&self, x: u32) -> Pin<Box<dyn Future<Output = u32>>>;
        fn with_mut(&self, f: &mut dyn FnMut(u32)) -> u32;
    }
}
pub mod objs_b_closure_arg {
    // BREAKING sibling of r0: the closure's own argument type changes
    use savefile_derive::savefile_abi_exportable;
    use std::future::Future;
    use std::pin::Pin;
    #[savefile_abi_exportable(version = 0)]
    pub trait OCallback {
        fn hit(&self, x: u32) -> u32;
        fn second(&self, a: u16, b: String) -> u8;
        fn third(&self) -> u64;
    }
    #[savefile_abi_exportable(version = 0)]
    pub trait OLedger {
        fn with_fn(&self, f: &dyn Fn(u64) -> u32) -> u32;
        fn with_boxed(&self, f: Box<dyn Fn(u32, String) -> u32 + Send + Sync>) -> u32;
        fn with_obj(&self, o: Box<dyn OCallback>) -> u32;
        fn make(&self) -> Box<dyn OCallback>;
        fn later(&self, x: u32) -> Pin<Box<dyn Future<Output = u32>>>;
    }
}
pub mod objs_b_closure_ret {
    // BREAKING sibling of r0: the closure's result type changes
    use savefile_derive::savefile_abi_exportable;
    use std::future::Future;
    use std::pin::Pin;
    #[savefile_abi_exportable(version = 0)]
    pub trait OCallback {
        fn hit(&self, x: u32) -> u32;
        fn second(&self, a: u16, b: String) -> u8;
        fn third(&self) -> u64;
    }
    #[savefile_abi_exportable(version = 0)]
    pub trait OLedger {
        fn with_fn(&self, f: &dyn Fn(u32) -> u64) -> u32;
        fn with_boxed(&self, f: Box<dyn Fn(u32, String) -> u32 + Send + Sync>) -> u32;
        fn with_obj(&self, o: Box<dyn OCallback>) -> u32;
        fn make(&self) -> Box<dyn OCallback>;
        fn later(&self, x: u32) -> Pin<Box<dyn Future<Output = u32>>>;
    }
}
pub mod objs_b_callback_ret {
    // BREAKING sibling of r0: the return type of a method of the boxed callback trait changes
    use savefile_derive::savefile_abi_exportable;
    use std::future::Future;
    use std::pin::Pin;
    #[savefile_abi_exportable(version = 0)]
    pub trait OCallback {
        fn hit(&self, x: u32) -> u16;
        fn second(&self, a: u16, b: String) -> u8;
        fn third(&self) -> u64;
    }
    #[savefile_abi_exportable(version = 0)]
    pub trait OLedger {
        fn with_fn(&self, f: &dyn Fn(u32) -> u32) -> u32;
        fn with_boxed(&self, f: Box<dyn Fn(u32, String) -> u32 + Send + Sync>) -> u32;
        fn with_obj(&self, o: Box<dyn OCallback>) -> u32;
        fn make(&self) -> Box<dyn OCallback>;
        fn later(&self, x: u32) -> Pin<Box<dyn Future<Output = u32>>>;
    }
}
pub mod objs_b_callback_second_arg {
    // BREAKING sibling of r0: argument type of the SECOND method of the callback trait changes
    use savefile_derive::savefile_abi_exportable;
    use std::future::Future;
    use std::pin::Pin;
    #[savefile_abi_exportable(version = 0)]
    pub trait OCallback {
        fn hit(&self, x: u32) -> u32;
        fn second(&self, a: u32, b: String) -> u8;
        fn third(&self) -> u64;
    }
    #[savefile_abi_exportable(version = 0)]
    pub trait OLedger {
        fn with_fn(&self, f: &dyn Fn(u32) -> u32) -> u32;
        fn with_boxed(&self, f: Box<dyn Fn(u32, String) -> u32 + Send + Sync>) -> u32;
        fn with_obj(&self, o: Box<dyn OCallback>) -> u32;
        fn make(&self) -> Box<dyn OCallback>;
        fn later(&self, x: u32) -> Pin<Box<dyn Future<Output = u32>>>;
    }
}
pub mod objs_b_callback_third_ret {
    // BREAKING sibling of r0: return type of the THIRD method of the callback trait changes
    use savefile_derive::savefile_abi_exportable;
    use std::future::Future;
    use std::pin::Pin;
    #[savefile_abi_exportable(version = 0)]
    pub trait OCallback {
        fn hit(&self, x: u32) -> u32;
        fn second(&self, a: u16, b: String) -> u8;
        fn third(&self) -> u32;
    }
    #[savefile_abi_exportable(version = 0)]
    pub trait OLedger {
        fn with_fn(&self, f: &dyn Fn(u32) -> u32) -> u32;
        fn with_boxed(&self, f: Box<dyn Fn(u32, String) -> u32 + Send + Sync>) -> u32;
        fn with_obj(&self, o: Box<dyn OCallback>) -> u32;
        fn make(&self) -> Box<dyn OCallback>;
        fn later(&self, x: u32) -> Pin<Box<dyn Future<Output = u32>>>;
    }
}
pub mod objs_b_callback_second_argcount {
    // BREAKING sibling of r0: argument count of the SECOND method of the callback trait changes
    use savefile_derive::savefile_abi_exportable;
    use std::future::Future;
    use std::pin::Pin;
    #[savefile_abi_exportable(version = 0)]
    pub trait OCallback {
        fn hit(&self, x: u32) -> u32;
        fn second(&self, a: u16) -> u8;
        fn third(&self) -> u64;
    }
    #[savefile_abi_exportable(version = 0)]
    pub trait OLedger {
        fn with_fn(&self, f: &dyn Fn(u32) -> u32) -> u32;
        fn with_boxed(&self, f: Box<dyn Fn(u32, String) -> u32 + Send + Sync>) -> u32;
        fn with_obj(&self, o: Box<dyn OCallback>) -> u32;
        fn make(&self) -> Box<dyn OCallback>;
        fn later(&self, x: u32) -> Pin<Box<dyn Future<Output = u32>>>;
    }
}
pub mod objs_b_future_output {
    // BREAKING sibling of r0: the output type of the returned future changes
    use savefile_derive::savefile_abi_exportable;
    use std::future::Future;
    use std::pin::Pin;
    #[savefile_abi_exportable(version = 0)]
    pub trait OCallback {
        fn hit(&self, x: u32) -> u32;
        fn second(&self, a: u16, b: String) -> u8;
        fn third(&self) -> u64;
    }
    #[savefile_abi_exportable(version = 0)]
    pub trait OLedger {
        fn with_fn(&self, f: &dyn Fn(u32) -> u32) -> u32;
        fn with_boxed(&self, f: Box<dyn Fn(u32, String) -> u32 + Send + Sync>) -> u32;
        fn with_obj(&self, o: Box<dyn OCallback>) -> u32;
        fn make(&self) -> Box<dyn OCallback>;
        fn later(&self, x: u32) -> Pin<Box<dyn Future<Output = u64>>>;
    }
}
pub mod objs_b_callback_method {
    // BREAKING sibling of r0: a method of the callback trait that is passed as an argument changes
    use savefile_derive::savefile_abi_exportable;
    use std::future::Future;
    use std::pin::Pin;
    #[savefile_abi_exportable(version = 0)]
    pub trait OCallback {
        fn hit(&self, x: u32, y: u32) -> u32;
        fn second(&self, a: u16, b: String) -> u8;
        fn third(&self) -> u64;
    }
    #[savefile_abi_exportable(version = 0)]
    pub trait OLedger {
        fn with_fn(&self, f: &dyn Fn(u32) -> u32) -> u32;
        fn with_boxed(&self, f: Box<dyn Fn(u32, String) -> u32 + Send + Sync>) -> u32;
        fn with_obj(&self, o: Box<dyn OCallback>) -> u32;
        fn make(&self) -> Box<dyn OCallback>;
        fn later(&self, x: u32) -> Pin<Box<dyn Future<Output = u32>>>;
    }
}
fn objs_view_r0(_v: u32) -> Vec<(&'static str, &'static str)> {
    vec![
        ("with_fn", "(&Fn(u32)->u32)->u32"),
        ("with_boxed", "(Box<Fn(u32,String)->u32>)->u32"),
        ("with_obj", "(Box<OCallback{hit(u32)->u32,second(u16,String)->u8,third()->u64}>)->u32"),
        ("make", "()->Box<OCallback{hit(u32)->u32,second(u16,String)->u8,third()->u64}>"),
        ("later", "(u32)->Future<u32>"),
    ]
}
fn objs_view_r1(v: u32) -> Vec<(&'static str, &'static str)> {
    let mut m = objs_view_r0(v);
    m.push(("with_mut", "(&mut FnMut(u32))->u32"));
    m
}
fn objs_view_b_closure(v: u32) -> Vec<(&'static str, &'static str)> {
    objs_view_r0(v).into_iter().map(|m| if m.0 == "with_fn" { ("with_fn", "(&Fn(u64)->u32)->u32") } else { m }).collect()
}
fn objs_view_b_closure_ret(v: u32) -> Vec<(&'static str, &'static str)> {
    objs_view_r0(v).into_iter().map(|m| if m.0 == "with_fn" { ("with_fn", "(&Fn(u32)->u64)->u32") } else { m }).collect()
}
fn objs_view_b_callback_ret(v: u32) -> Vec<(&'static str, &'static str)> {
    objs_view_r0(v)
        .into_iter()
        .map(|m| match m.0 {
            "with_obj" => ("with_obj", "(Box<OCallback{hit(u32)->u16}>)->u32"),
            "make" => ("make", "()->Box<OCallback{hit(u32)->u16}>"),
            _ => m,
        })
        .collect()
}
fn objs_view_cb(v: u32, sig: &'static str) -> Vec<(&'static str, &'static str)> {
    objs_view_r0(v)
        .into_iter()
        .map(|m| match m.0 {
            "with_obj" => ("with_obj", sig),
            "make" => ("make", sig),
            _ => m,
        })
        .collect()
}
fn objs_view_b_cb_second_arg(v: u32) -> Vec<(&'static str, &'static str)> {
    objs_view_cb(v, "OCallback{hit(u32)->u32,second(u32,String)->u8,third()->u64}")
}
fn objs_view_b_cb_third_ret(v: u32) -> Vec<(&'static str, &'static str)> {
    objs_view_cb(v, "OCallback{hit(u32)->u32,second(u16,String)->u8,third()->u32}")
}
fn objs_view_b_cb_second_argcount(v: u32) -> Vec<(&'static str, &'static str)> {
    objs_view_cb(v, "OCallback{hit(u32)->u32,second(u16)->u8,third()->u64}")
}
fn objs_view_b_future(v: u32) -> Vec<(&'static str, &'static str)> {
    objs_view_r0(v).into_iter().map(|m| if m.0 == "later" { ("later", "(u32)->Future<u64>") } else { m }).collect()
}
fn objs_view_b_callback(v: u32) -> Vec<(&'static str, &'static str)> {
    objs_view_r0(v)
        .into_iter()
        .map(|m| match m.0 {
            "with_obj" => ("with_obj", "(Box<OCallback{hit(u32,u32)->u32}>)->u32"),
            "make" => ("make", "()->Box<OCallback{hit(u32,u32)->u32}>"),
            _ => m,
        })
        .collect()
}

// ------------------------------------------------------------------------------------------------
// chain "argv2": the repository's own interface whose ledger (savefile-test/schemas) was written by an
// EARLIER BUILD of the library; the history starts from a copy of those checked-in files
// ------------------------------------------------------------------------------------------------
pub mod argv2 {
    use savefile::prelude::*;
    use savefile_derive::{savefile_abi_exportable, Savefile};
    #[derive(Savefile, Debug)]
    pub struct ArgArgument {
        #[savefile_versions = "0..0"]
        pub data1: AbiRemoved<u32>,
        pub data2: u32,
        #[savefile_versions = "1.."]
        pub data3: u32,
    }
    #[derive(Savefile)]
    pub enum EnumArgument {
        Variant1,
        Variant2,
        #[savefile_versions = "1.."]
        Variant3,
    }
    #[savefile_abi_exportable(version = 1)]
    pub trait ArgInterfaceV2 {
        fn sums(&self, a: ArgArgument, b: ArgArgument) -> u32;
        fn enum_arg(&self, a: EnumArgument) -> String;
        fn function_existing_in_v2(&self);
        fn closure_test(&self, f: Box<dyn Fn()>);
    }
}
pub mod argv2_next {
    // compatible successor: version 2 adds a field and a method
    use savefile::prelude::*;
    use savefile_derive::{savefile_abi_exportable, Savefile};
    #[derive(Savefile, Debug)]
    pub struct ArgArgument {
        #[savefile_versions = "0..0"]
        pub data1: AbiRemoved<u32>,
        pub data2: u32,
        #[savefile_versions = "1.."]
        pub data3: u32,
        #[savefile_versions = "2.."]
        pub data4: u64,
    }
    #[derive(Savefile)]
    pub enum EnumArgument {
        Variant1,
        Variant2,
        #[savefile_versions = "1.."]
        Variant3,
    }
    #[savefile_abi_exportable(version = 2)]
    pub trait ArgInterfaceV2 {
        fn sums(&self, a: ArgArgument, b: ArgArgument) -> u32;
        fn enum_arg(&self, a: EnumArgument) -> String;
        fn function_existing_in_v2(&self);
        fn closure_test(&self, f: Box<dyn Fn()>);
        fn newer(&self, x: u8) -> u8;
    }
}
pub mod argv2_b_enum_arg {
    // BREAKING: `enum_arg` returns u32 instead of String
    use savefile::prelude::*;
    use savefile_derive::{savefile_abi_exportable, Savefile};
    #[derive(Savefile, Debug)]
    pub struct ArgArgument {
        #[savefile_versions = "0..0"]
        pub data1: AbiRemoved<u32>,
        pub data2: u32,
        #[savefile_versions = "1.."]
        pub data3: u32,
    }
    #[derive(Savefile)]
    pub enum EnumArgument {
        Variant1,
        Variant2,
        #[savefile_versions = "1.."]
        Variant3,
    }
    #[savefile_abi_exportable(version = 1)]
    pub trait ArgInterfaceV2 {
        fn sums(&self, a: ArgArgument, b: ArgArgument) -> u32;
        fn enum_arg(&self, a: EnumArgument) -> u32;
        fn function_existing_in_v2(&self);
        fn closure_test(&self, f: Box<dyn Fn()>);
    }
}
fn argv2_view(v: u32) -> Vec<(&'static str, &'static str)> {
    let arg = match v {
        0 => "(Arg{data1,data2},Arg{data1,data2})->u32",
        1 => "(Arg{data2,data3},Arg{data2,data3})->u32",
        _ => "(Arg{data2,data3,data4},Arg{data2,data3,data4})->u32",
    };
    let en = if v == 0 { "(Enum{V1,V2})->String" } else { "(Enum{V1,V2,V3})->String" };
    vec![("sums", arg), ("enum_arg", en), ("function_existing_in_v2", "()->()"), ("closure_test", "(Box<Fn()>)->()")]
}
fn argv2_view_next(v: u32) -> Vec<(&'static str, &'static str)> {
    let mut m = argv2_view(v);
    m.push(("newer", "(u8)->u8"));
    m
}
fn argv2_view_b(v: u32) -> Vec<(&'static str, &'static str)> {
    argv2_view(v).into_iter().map(|m| if m.0 == "enum_arg" { ("enum_arg", if v == 0 { "(Enum{V1,V2})->u32" } else { "(Enum{V1,V2,V3})->u32" }) } else { m }).collect()
}

// ------------------------------------------------------------------------------------------------
// chain "bounds": trait BLedger with auto-trait bounds (the recorded name carries +Sync+Send)
// ------------------------------------------------------------------------------------------------
pub mod bounds_r0 {
    use savefile_derive::savefile_abi_exportable;
    #[savefile_abi_exportable(version = 0)]
    pub trait BLedger: Send + Sync {
        fn get(&self, x: u32) -> u32;
        fn put(&self, s: String) -> u8;
    }
}
pub mod bounds_r1 {
    // compatible: a new method
    use savefile_derive::savefile_abi_exportable;
    #[savefile_abi_exportable(version = 1)]
    pub trait BLedger: Send + Sync {
        fn get(&self, x: u32) -> u32;
        fn put(&self, s: String) -> u8;
        fn more(&self) -> u8;
    }
}
pub mod bounds_b_no_sync {
    // BREAKING (by the library's own rule for interfaces in argument position): the Sync bound is dropped
    use savefile_derive::savefile_abi_exportable;
    #[savefile_abi_exportable(version = 0)]
    pub trait BLedger: Send {
        fn get(&self, x: u32) -> u32;
        fn put(&self, s: String) -> u8;
    }
}
pub mod bounds_b_no_send {
    // BREAKING: the Send bound is dropped
    use savefile_derive::savefile_abi_exportable;
    #[savefile_abi_exportable(version = 0)]
    pub trait BLedger: Sync {
        fn get(&self, x: u32) -> u32;
        fn put(&self, s: String) -> u8;
    }
}
fn bounds_view(bounds: &'static str, more: bool) -> Vec<(&'static str, &'static str)> {
    // the bounds are part of what is recorded: model them as a pseudo-method that must be present and equal
    let mut v = vec![("get", "(u32)->u32"), ("put", "(String)->u8")];
    if bounds.contains("Sync") {
        v.push(("<bound Sync>", "required"));
    }
    if bounds.contains("Send") {
        v.push(("<bound Send>", "required"));
    }
    if more {
        v.push(("more", "()->u8"));
    }
    v
}
fn bounds_view_r0(_v: u32) -> Vec<(&'static str, &'static str)> {
    bounds_view("Send+Sync", false)
}
fn bounds_view_r1(_v: u32) -> Vec<(&'static str, &'static str)> {
    bounds_view("Send+Sync", true)
}
fn bounds_view_no_sync(_v: u32) -> Vec<(&'static str, &'static str)> {
    bounds_view("Send", false)
}
fn bounds_view_no_send(_v: u32) -> Vec<(&'static str, &'static str)> {
    bounds_view("Sync", false)
}

// ------------------------------------------------------------------------------------------------
// chain "futs": auto-trait bounds on a RETURNED boxed future and a versioned Output type. In return position the
// direction flips: a later revision that ADDS a bound expects more than a recorded implementation provides
// (breaking), one that DROPS a bound is fine.
// ------------------------------------------------------------------------------------------------
pub mod futs_r0 {
    use savefile_derive::{savefile_abi_exportable, Savefile};
    use std::future::Future;
    use std::pin::Pin;
    #[derive(Savefile)]
    pub struct Rep {
        pub a: u32,
    }
    #[savefile_abi_exportable(version = 0)]
    pub trait FLedger {
        fn plain(&self) -> Pin<Box<dyn Future<Output = u32>>>;
        fn unpin(&self) -> Pin<Box<dyn Future<Output = u64> + Unpin>>;
        fn rep(&self) -> Pin<Box<dyn Future<Output = Rep>>>;
    }
}
pub mod futs_r1 {
    // compatible: the Output struct gains a versioned field
    use savefile_derive::{savefile_abi_exportable, Savefile};
    use std::future::Future;
    use std::pin::Pin;
    #[derive(Savefile)]
    pub struct Rep {
        pub a: u32,
        #[savefile_versions = "1.."]
        pub b: u64,
    }
    #[savefile_abi_exportable(version = 1)]
    pub trait FLedger {
        fn plain(&self) -> Pin<Box<dyn Future<Output = u32>>>;
        fn unpin(&self) -> Pin<Box<dyn Future<Output = u64> + Unpin>>;
        fn rep(&self) -> Pin<Box<dyn Future<Output = Rep>>>;
    }
}
pub mod futs_b_send_added {
    // BREAKING w.r.t. r0: the returned futures are now required to be Send
    use savefile_derive::{savefile_abi_exportable, Savefile};
    use std::future::Future;
    use std::pin::Pin;
    #[derive(Savefile)]
    pub struct Rep {
        pub a: u32,
    }
    #[savefile_abi_exportable(version = 0)]
    pub trait FLedger {
        fn plain(&self) -> Pin<Box<dyn Future<Output = u32> + Send>>;
        fn unpin(&self) -> Pin<Box<dyn Future<Output = u64> + Unpin + Send>>;
        fn rep(&self) -> Pin<Box<dyn Future<Output = Rep>>>;
    }
}
pub mod futs_b_send_added_unpin_only {
    // BREAKING w.r.t. r0: only the future that already had a bound (Unpin) is now also required to be Send
    use savefile_derive::{savefile_abi_exportable, Savefile};
    use std::future::Future;
    use std::pin::Pin;
    #[derive(Savefile)]
    pub struct Rep {
        pub a: u32,
    }
    #[savefile_abi_exportable(version = 0)]
    pub trait FLedger {
        fn plain(&self) -> Pin<Box<dyn Future<Output = u32>>>;
        fn unpin(&self) -> Pin<Box<dyn Future<Output = u64> + Unpin + Send>>;
        fn rep(&self) -> Pin<Box<dyn Future<Output = Rep>>>;
    }
}
/// per returned future: which bounds it LACKS (a recorded "lacks X" must still be lacking in the runner)
fn futs_view(bounds_plain: &'static str, bounds_unpin: &'static str, rep: &'static str) -> Vec<(&'static str, &'static str)> {
    let mut v = vec![("plain", "()->Future<u32>"), ("unpin", "()->Future<u64>"), ("rep", rep)];
    for (m, b) in [("plain", bounds_plain), ("unpin", bounds_unpin)] {
        for bound in ["Send", "Sync", "Unpin"] {
            if !b.contains(bound) {
                let key: &'static str = Box::leak(format!("{}<lacks {}>", m, bound).into_boxed_str());
                v.push((key, "lacking"));
            }
        }
    }
    v
}
fn futs_view_r0(_v: u32) -> Vec<(&'static str, &'static str)> {
    futs_view("", "Unpin", "()->Future<Rep{a}>")
}
fn futs_view_r1(v: u32) -> Vec<(&'static str, &'static str)> {
    futs_view("", "Unpin", if v >= 1 { "()->Future<Rep{a,b}>" } else { "()->Future<Rep{a}>" })
}
fn futs_view_b_send(_v: u32) -> Vec<(&'static str, &'static str)> {
    futs_view("Send", "Unpin+Send", "()->Future<Rep{a}>")
}
fn futs_view_b_send_unpin_only(_v: u32) -> Vec<(&'static str, &'static str)> {
    futs_view("", "Unpin+Send", "()->Future<Rep{a}>")
}

macro_rules! rev {
    ($chain:expr, $name:expr, $latest:expr, $view:expr, $t:ty, $edit:expr) => {
        Rev { chain: $chain, name: $name, latest: $latest, view: $view, verify: |p| verify_compatiblity::<$t>(p), legacy: |p| write_legacy::<$t>(p), edit: $edit }
    };
}
pub fn write_legacy<T: savefile_abi::AbiExportable + ?Sized>(dir: &str) -> Result<(), SavefileError> {
    for v in 0..=T::get_latest_version() {
        let def = T::get_definition(v);
        let f = std::path::Path::new(dir).join(format!("savefile_{}_{}.schema", def.name, v));
        savefile::save_file_noschema(&f, 1, &def)?;
    }
    Ok(())
}
pub fn revisions() -> Vec<Rev> {
    vec![
        rev!("plain", "plain_r0", 0, plain_view_r0, dyn plain_r0::Ledger, "initial revision"),
        rev!("plain", "plain_r1", 1, plain_view_r1, dyn plain_r1::Ledger, "compatible: new method `sub`, new versioned field Point.y"),
        rev!("plain", "plain_r2", 2, plain_view_r2, dyn plain_r2::Ledger, "compatible: new method `mul`, Point.y removed (AbiRemoved), new field Point.z, new enum variant Kind::C"),
        rev!("plain", "plain_b_removed", 1, plain_view_b_removed, dyn plain_b_removed::Ledger, "BREAKING: method `name` removed"),
        rev!("plain", "plain_b_argcount", 1, plain_view_b_argcount, dyn plain_b_argcount::Ledger, "BREAKING: `add` has one more argument"),
        rev!("plain", "plain_b_argtype", 1, plain_view_b_argtype, dyn plain_b_argtype::Ledger, "BREAKING: second argument of `add` is u64"),
        rev!("plain", "plain_b_rettype", 1, plain_view_b_rettype, dyn plain_b_rettype::Ledger, "BREAKING: `kind` (the last method recorded at version 0) returns u16"),
        rev!("plain", "plain_b_unversioned_field", 1, plain_view_b_unversioned, dyn plain_b_unversioned_field::Ledger, "BREAKING: Point.y added without a version range"),
        rev!("plain", "plain_b_v1_only", 2, plain_view_b_v1_only, dyn plain_b_v1_only::Ledger, "BREAKS VERSION 1 ONLY: the type of the removed field Point.y is u16 at version 1"),
        rev!("plain", "plain_b_variant_renamed", 1, plain_view_b_variant, dyn plain_b_variant_renamed::Ledger, "BREAKING: enum variant Kind::B renamed"),
        rev!("plain", "plain_r1_reordered", 1, plain_view_r1, dyn plain_r1_reordered::Ledger, "compatible: the methods of r1 declared in another order"),
        rev!("plain", "plain_b_renamed", 1, plain_view_b_renamed, dyn plain_b_renamed::Ledger, "BREAKING: method `add` renamed to `plus` (same position and signature)"),
        rev!("plain", "plain_b_swapped_names", 1, plain_view_b_swapped_names, dyn plain_b_swapped_names::Ledger, "BREAKING: methods `name` and `put` swap names (count and positions unchanged)"),
        rev!("plain", "plain_b_variant_inserted", 1, plain_view_b_variant_inserted, dyn plain_b_variant_inserted::Ledger, "BREAKING: versioned enum variant inserted before an existing variant (wire tag of Kind::B moves)"),
        rev!("plain", "plain_r1_variant_appended", 1, plain_view_r1_variant_appended, dyn plain_r1_variant_appended::Ledger, "compatible: versioned enum variant appended"),
        rev!("plain", "plain_b_canary", 1, plain_view_b_canary, dyn plain_b_canary::Ledger, "BREAKING: argument type u32 replaced by savefile::Canary1"),
        rev!("plain", "plain_b_ret_unit", 1, plain_view_b_ret_unit, dyn plain_b_ret_unit::Ledger, "BREAKING: return type of `kind` changed to ()"),
        rev!("big", "big_r0", 0, big_view_r0, dyn big_r0::GLedger, "initial revision: argument enum with 256 variants, no repr attribute"),
        rev!("big", "big_r1", 1, big_view_r1, dyn big_r1::GLedger, "compatible: new method"),
        rev!("big", "big_b_257", 1, big_view_b_257, dyn big_b_257::GLedger, "BREAKING: a versioned 257th variant widens the discriminant of every version"),
        rev!("recv", "recv_r0", 0, recv_view_r0, dyn recv_r0::RLedger, "initial revision with &self and &mut self methods"),
        rev!("recv", "recv_r1", 1, recv_view_r1, dyn recv_r1::RLedger, "compatible: new &mut self method"),
        rev!("recv", "recv_b_argtype", 0, recv_view_b_argtype, dyn recv_b_argtype::RLedger, "BREAKING: argument type of a &mut self method changed"),
        rev!("async", "async_r0", 0, async_view_r0, dyn async_r0::ALedger, "initial revision (async_trait)"),
        rev!("async", "async_r1", 1, async_view_r1, dyn async_r1::ALedger, "compatible: new async method"),
        rev!("async", "async_b_sync", 0, async_view_b_sync, dyn async_b_sync::ALedger, "BREAKING: `get` no longer async"),
        rev!("async", "async_b_argtype", 0, async_view_b_argtype, dyn async_b_argtype::ALedger, "BREAKING: argument type of async `set` changed"),
        rev!("argv2", "argv2", 1, argv2_view, dyn argv2::ArgInterfaceV2, "the interface exactly as recorded by the checked-in ledger"),
        rev!("argv2", "argv2_next", 2, argv2_view_next, dyn argv2_next::ArgInterfaceV2, "compatible: version 2 adds a field and a method"),
        rev!("argv2", "argv2_b_enum_arg", 1, argv2_view_b, dyn argv2_b_enum_arg::ArgInterfaceV2, "BREAKING: `enum_arg` returns u32"),
        rev!("bounds", "bounds_r0", 0, bounds_view_r0, dyn bounds_r0::BLedger, "initial revision, declared `: Send + Sync`"),
        rev!("bounds", "bounds_r1", 1, bounds_view_r1, dyn bounds_r1::BLedger, "compatible: new method"),
        rev!("bounds", "bounds_b_no_sync", 0, bounds_view_no_sync, dyn bounds_b_no_sync::BLedger, "BREAKING: Sync bound dropped"),
        rev!("bounds", "bounds_b_no_send", 0, bounds_view_no_send, dyn bounds_b_no_send::BLedger, "BREAKING: Send bound dropped"),
        rev!("futs", "futs_r0", 0, futs_view_r0, dyn futs_r0::FLedger, "initial revision: two methods returning boxed futures (plain u32 output / struct output)"),
        rev!("futs", "futs_r1", 1, futs_view_r1, dyn futs_r1::FLedger, "compatible: the Output struct of a returned future gains a versioned field"),
        rev!("futs", "futs_b_send_added", 0, futs_view_b_send, dyn futs_b_send_added::FLedger, "BREAKING: returned futures now required to be Send"),
        rev!("futs", "futs_b_send_added_unpin_only", 0, futs_view_b_send_unpin_only, dyn futs_b_send_added_unpin_only::FLedger, "BREAKING: the Unpin future is now also required to be Send"),
        rev!("objs", "objs_r0", 0, objs_view_r0, dyn objs_r0::OLedger, "initial revision (closures, boxed traits, boxed futures)"),
        rev!("objs", "objs_r1", 1, objs_view_r1, dyn objs_r1::OLedger, "compatible: new method taking &mut dyn FnMut"),
        rev!("objs", "objs_b_closure_arg", 0, objs_view_b_closure, dyn objs_b_closure_arg::OLedger, "BREAKING: argument type of a closure argument changed"),
        rev!("objs", "objs_b_closure_ret", 0, objs_view_b_closure_ret, dyn objs_b_closure_ret::OLedger, "BREAKING: result type of a closure argument changed"),
        rev!("objs", "objs_b_callback_ret", 0, objs_view_b_callback_ret, dyn objs_b_callback_ret::OLedger, "BREAKING: return type of a method of the boxed callback trait changed"),
        rev!("objs", "objs_b_callback_second_arg", 0, objs_view_b_cb_second_arg, dyn objs_b_callback_second_arg::OLedger, "BREAKING: argument type of the second method of the boxed callback trait changed"),
        rev!("objs", "objs_b_callback_third_ret", 0, objs_view_b_cb_third_ret, dyn objs_b_callback_third_ret::OLedger, "BREAKING: return type of the third method of the boxed callback trait changed"),
        rev!("objs", "objs_b_callback_second_argcount", 0, objs_view_b_cb_second_argcount, dyn objs_b_callback_second_argcount::OLedger, "BREAKING: argument count of the second method of the boxed callback trait changed"),
        rev!("objs", "objs_b_future_output", 0, objs_view_b_future, dyn objs_b_future_output::OLedger, "BREAKING: output type of the returned future changed"),
        rev!("objs", "objs_b_callback_method", 0, objs_view_b_callback, dyn objs_b_callback_method::OLedger, "BREAKING: method of the boxed callback trait passed/returned changed"),
    ]
}
