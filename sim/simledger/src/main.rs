//! simledger: run-history simulator for savefile_abi::verify_compatiblity (C15).
//! The ledger is a tiny storage system: its only state is a directory, every call is a restart after which
//! only that directory survives, and the property is about histories of runs over successive revisions.
//!   simledger run --prop C15 --seed S --from A --to B [--stride N] [--journal F] [--out F] [--trace] [--tier T]
//!   simledger replay FILE
//!   simledger one --dir D --rev NAME          (one run in this process; used for process-per-run histories)
mod revs;
use revs::*;
use serde_json::{json, Value};
use simcore::{arg, flag, mix, Journal, Rng, Stats};
use std::collections::BTreeMap;
use std::path::{Path, PathBuf};

#[derive(Clone, Debug)]
struct History {
    chain: String,
    start: String, // "empty" | "earlier-build"
    runs: Vec<String>,
    fresh_process: bool,
    seed: u64,
}
impl History {
    fn to_json(&self) -> Value {
        json!({"prop": "C15", "plan": {"chain": self.chain, "start": self.start, "runs": self.runs, "fresh_process": self.fresh_process}, "seed": self.seed})
    }
    fn from_json(v: &Value) -> History {
        let p = &v["plan"];
        History {
            chain: simcore::js(p, "chain").to_string(),
            start: simcore::js(p, "start").to_string(),
            runs: simcore::jarr(p, "runs").iter().filter_map(|x| x.as_str().map(|s| s.to_string())).collect(),
            fresh_process: p["fresh_process"].as_bool().unwrap_or(false),
            seed: simcore::ju(v, "seed"),
        }
    }
}
fn rev_by_name<'a>(revs: &'a [Rev], n: &str) -> Option<&'a Rev> {
    revs.iter().find(|r| r.name == n)
}
fn trait_name(chain: &str) -> &'static str {
    match chain {
        "plain" => "Ledger",
        "async" => "ALedger",
        "objs" => "OLedger",
        "bounds" => "BLedger",
        "futs" => "FLedger",
        "recv" => "RLedger",
        "big" => "GLedger",
        _ => "ArgInterfaceV2",
    }
}
/// reference model: is `runner` compatible with what `recorder` recorded for version v?
fn compatible(runner: &Rev, recorder: &Rev, v: u32) -> Result<(), String> {
    let mine: BTreeMap<&str, &str> = (runner.view)(v).into_iter().collect();
    for (m, sig) in (recorder.view)(v) {
        match mine.get(m) {
            None => return Err(format!("method `{}` recorded at version {} by {} is missing in {}", m, v, recorder.name, runner.name)),
            Some(s) if *s != sig => return Err(format!("method `{}` recorded at version {} by {} as {} is now {}", m, v, recorder.name, sig, s)),
            _ => {}
        }
    }
    Ok(())
}
fn list_dir(dir: &Path) -> BTreeMap<String, Vec<u8>> {
    let mut m = BTreeMap::new();
    if let Ok(rd) = std::fs::read_dir(dir) {
        for e in rd.flatten() {
            if let Ok(b) = std::fs::read(e.path()) {
                m.insert(e.file_name().to_string_lossy().to_string(), b);
            }
        }
    }
    m
}
struct Violation {
    oracle: String,
    detail: String,
    site: String,
}
struct HistOut {
    violation: Option<Violation>,
    runs_done: u64,
    outcomes: Vec<String>,
    log_hash: u64,
    probes: Vec<&'static str>,
}
fn work_dir() -> PathBuf {
    let d = std::env::var("SIM_TMP").unwrap_or_else(|_| "/verif/.work/tmp".to_string());
    let p = PathBuf::from(d).join(format!("ledger_{}", std::process::id()));
    let _ = std::fs::create_dir_all(&p);
    p
}
fn one_run(rev: &Rev, dir: &Path, fresh: bool, fsize: Option<u64>) -> Result<Result<(), String>, String> {
    if fresh || fsize.is_some() {
        let exe = std::env::current_exe().map_err(|e| e.to_string())?;
        let mut cmd = std::process::Command::new(exe);
        cmd.args(["one", "--dir", &dir.to_string_lossy(), "--rev", rev.name]);
        if let Some(l) = fsize {
            // the storage fault "disk full": the child may not grow any file beyond l bytes (EFBIG, as ENOSPC would)
            cmd.args(["--fsize", &l.to_string()]);
        }
        let o = cmd.output().map_err(|e| e.to_string())?;
        match o.status.code() {
            Some(0) => Ok(Ok(())),
            Some(1) => Ok(Err(String::from_utf8_lossy(&o.stdout).trim().to_string())),
            other => Err(format!("child died: {:?} {}", other, String::from_utf8_lossy(&o.stderr).chars().take(300).collect::<String>())),
        }
    } else {
        match simcore::guarded(|| (rev.verify)(&dir.to_string_lossy())) {
            Ok(Ok(())) => Ok(Ok(())),
            Ok(Err(e)) => Ok(Err(format!("{:?}", e).chars().take(300).collect())),
            Err(p) => Err(format!("panic: {} at {}", p.msg, p.site())),
        }
    }
}
fn exec(h: &History, revs: &[Rev]) -> HistOut {
    let dir = work_dir();
    let _ = std::fs::remove_dir_all(&dir);
    let _ = std::fs::create_dir_all(&dir);
    let mut hh = simcore::Fnv::new();
    let mut out = HistOut { violation: None, runs_done: 0, outcomes: vec![], log_hash: 0, probes: vec![] };
    let tn = trait_name(&h.chain);
    // model: version -> name of the revision that recorded it
    let mut recorded: BTreeMap<u32, String> = BTreeMap::new();
    if h.start == "earlier-build" {
        // the repository's own checked-in ledger, written by an earlier build of the library
        for v in 0..2 {
            let repo = std::env::var("SIM_REPO").unwrap_or_else(|_| "/repo".to_string());
            let src = format!("{}/savefile-test/schemas/savefile_ArgInterfaceV2_{}.schema", repo, v);
            if let Ok(b) = std::fs::read(&src) {
                let _ = std::fs::write(dir.join(format!("savefile_ArgInterfaceV2_{}.schema", v)), b);
                recorded.insert(v, "argv2".to_string());
            }
        }
    }
    if let Some(rn) = h.start.strip_prefix("legacy-format:") {
        // a directory populated by an earlier release of the library (data version 1 files) for revision `rn`
        if let Some(rev) = rev_by_name(revs, rn) {
            if (rev.legacy)(&dir.to_string_lossy()).is_ok() {
                for v in 0..=rev.latest {
                    recorded.insert(v, rn.to_string());
                }
                out.probes.push("directory_written_by_earlier_release");
            }
        }
    }
    // versions whose ledger file was torn by a fault (writer killed, disk full) after it had been recorded
    let mut torn: std::collections::BTreeSet<u32> = Default::default();
    for (i, rn) in h.runs.iter().enumerate() {
        if let Some(rest) = rn.strip_prefix("lose:") {
            // a storage fault, not a run: one ledger file disappears (restored from a partial backup, cleaned up by
            // hand); the versions that are still on record keep their force
            let v: u32 = rest.parse().unwrap_or(0);
            let f = dir.join(format!("savefile_{}_{}.schema", tn, v));
            if std::fs::remove_file(&f).is_ok() {
                recorded.remove(&v);
                torn.remove(&v);
                out.probes.push("ledger_file_lost");
                hh.str(rn);
            }
            continue;
        }
        if let Some(rest) = rn.strip_prefix("tear:") {
            // a storage fault, not a run: cut an existing ledger file short (keep `keep` per mille of its bytes)
            let mut it = rest.split(':');
            let v: u32 = it.next().and_then(|x| x.parse().ok()).unwrap_or(0);
            let keep: u64 = it.next().and_then(|x| x.parse().ok()).unwrap_or(500);
            let f = dir.join(format!("savefile_{}_{}.schema", tn, v));
            if let Ok(b) = std::fs::read(&f) {
                let n = (b.len() as u64 * keep.min(999) / 1000) as usize;
                let _ = std::fs::write(&f, &b[..n]);
                torn.insert(v);
                out.probes.push("ledger_file_torn");
                hh.str(rn);
            }
            continue;
        }
        // "full:<revision>:<bytes>": a run of <revision> while the disk is full (no file may grow beyond <bytes>)
        let (rn_full, fsize): (String, Option<u64>) = match rn.strip_prefix("full:") {
            Some(rest) => {
                let mut it = rest.split(':');
                let r = it.next().unwrap_or("").to_string();
                (r, Some(it.next().and_then(|x| x.parse().ok()).unwrap_or(0)))
            }
            None => (rn.clone(), None),
        };
        let rn = &rn_full;
        let Some(rev) = rev_by_name(revs, rn) else { continue };
        if rev.chain != h.chain {
            continue;
        }
        if fsize.is_some() {
            out.probes.push("run_with_full_disk");
        }
        let before = list_dir(&dir);
        // expected result by the model
        let mut expect: Result<(), String> = Ok(());
        for v in 0..=rev.latest {
            if let Some(rec) = recorded.get(&v) {
                if let Some(recrev) = rev_by_name(revs, rec) {
                    if let Err(e) = compatible(rev, recrev, v) {
                        expect = Err(e);
                        break;
                    }
                }
            }
        }
        let got = one_run(rev, &dir, h.fresh_process, fsize);
        out.runs_done += 1;
        let got = match got {
            Ok(g) => g,
            Err(e) => {
                out.violation = Some(Violation { oracle: "C15.run.panic".into(), detail: format!("run #{} ({}) did not return a result: {}", i, rn, e), site: rn.clone() });
                break;
            }
        };
        let after = list_dir(&dir);
        hh.str(rn);
        if let Some(l) = fsize {
            hh.u64(l);
        }
        hh.str(if got.is_ok() { "ok" } else { "err" });
        out.outcomes.push(format!("{}{}:{}", if fsize.is_some() { "full/" } else { "" }, rn, if got.is_ok() { "ok" } else { "err" }));
        if fsize.is_some() && got.is_err() {
            // (also when the model expected an error anyway: the run may have started to record a missing version
            // before it got as far as the incompatible one)
            // the run failed because the disk was full (legitimate): whatever it left behind for versions that had
            // no record yet may be incomplete - later runs over those records may fail, like over a torn file.
            // A run that REPORTS SUCCESS on a full disk gets no such allowance: its records must be complete.
            out.probes.push("full_disk_run_failed");
            for v in 0..=rev.latest {
                if !recorded.contains_key(&v) {
                    torn.insert(v);
                }
            }
            for v in 0..=rev.latest {
                let f = format!("savefile_{}_{}.schema", tn, v);
                if after.contains_key(&f) && !recorded.contains_key(&v) {
                    recorded.insert(v, rn.clone());
                }
            }
            continue;
        }
        if fsize.is_some() && got.is_ok() {
            out.probes.push("full_disk_run_succeeded");
        }
        let same_as_prev = i > 0 && h.runs[i - 1] == *rn;
        if same_as_prev {
            out.probes.push("same_revision_twice");
        }
        if rn.starts_with("async") && !before.is_empty() {
            out.probes.push("async_interface_on_populated_directory");
        }
        let touches_torn = (0..=rev.latest).any(|v| torn.contains(&v));
        match (&expect, &got) {
            (Ok(()), Err(_)) if touches_torn => {
                // the statement does not say what a run over a damaged record must do: failing is fine
                out.probes.push("run_over_torn_record_failed");
            }
            (Ok(()), Err(e)) => {
                let kind = if recorded.values().all(|r| r == rn) && !recorded.is_empty() { "unchanged-interface-rejected" } else { "compatible-evolution-rejected" };
                out.violation = Some(Violation {
                    oracle: format!("C15.history.{}", kind),
                    detail: format!("run #{} of {} over a directory recorded by {:?}: the reference model accepts it, verify_compatiblity returned: {}", i, rn, recorded, e),
                    site: rn.clone(),
                });
            }
            (Err(why), Ok(())) => {
                out.violation = Some(Violation {
                    oracle: "C15.history.breaking-change-accepted".into(),
                    detail: format!("run #{} of {} ({}) over a directory recorded by {:?} was accepted, but it breaks a recorded version: {}", i, rn, rev.edit, recorded, why),
                    site: rn.clone(),
                });
            }
            _ => {}
        }
        // the ledger is write-once: files that existed before the run are byte-identical afterwards
        for (name, bytes) in &before {
            match after.get(name) {
                Some(b) if b == bytes => {}
                _ => {
                    if out.violation.is_none() {
                        out.violation = Some(Violation { oracle: "C15.ledger.rewritten".into(), detail: format!("run #{} of {} changed or removed the existing ledger file {}", i, rn, name), site: rn.clone() });
                    }
                }
            }
        }
        // naming + recording
        for name in after.keys() {
            if !before.contains_key(name) {
                let ok = (0..=rev.latest).any(|v| *name == format!("savefile_{}_{}.schema", tn, v));
                if !ok && out.violation.is_none() {
                    out.violation = Some(Violation { oracle: "C15.ledger.unexpected-file".into(), detail: format!("run #{} of {} created {}", i, rn, name), site: rn.clone() });
                }
            }
        }
        if got.is_ok() {
            for v in 0..=rev.latest {
                let f = format!("savefile_{}_{}.schema", tn, v);
                if !after.contains_key(&f) && out.violation.is_none() {
                    out.violation = Some(Violation { oracle: "C15.ledger.not-recorded".into(), detail: format!("run #{} of {} succeeded but {} does not exist", i, rn, f), site: rn.clone() });
                }
            }
        }
        // adopt whatever this run created (the statement does not say what a failed run may leave behind)
        for v in 0..=rev.latest {
            let f = format!("savefile_{}_{}.schema", tn, v);
            if after.contains_key(&f) && !recorded.contains_key(&v) {
                recorded.insert(v, rn.clone());
            }
        }
        if out.violation.is_some() {
            break;
        }
    }
    let _ = std::fs::remove_dir_all(&dir);
    out.log_hash = hh.0;
    out
}

fn gen_history(seed: u64, revs: &[Rev], thorough: bool) -> History {
    let mut rng = Rng::new(seed);
    let chain = *rng.pick(&["plain", "plain", "async", "objs", "objs", "argv2", "bounds", "futs", "recv", "big"]);
    let members: Vec<&Rev> = revs.iter().filter(|r| r.chain == chain).collect();
    let good: Vec<&&Rev> = members.iter().filter(|r| !r.name.contains("_b_")).collect();
    let n = rng.range(1, 6);
    let mut runs: Vec<String> = Vec::new();
    for i in 0..n {
        let pick = match rng.below(10) {
            // the same revision again (the unchanged-interface clause)
            0..=2 if i > 0 => runs[i as usize - 1].clone(),
            // a compatible step forward
            3..=6 => good[rng.below(good.len() as u64) as usize].name.to_string(),
            // anything, including breaking siblings
            _ => members[rng.below(members.len() as u64) as usize].name.to_string(),
        };
        runs.push(pick);
    }
    if runs.len() >= 2 && rng.chance(1, 5) {
        let at = rng.range(1, runs.len() as u64 - 1) as usize;
        runs.insert(at, format!("tear:{}:{}", rng.below(3), rng.below(1000)));
    }
    if runs.len() >= 2 && rng.chance(1, 6) {
        let at = rng.range(1, runs.len() as u64 - 1) as usize;
        runs.insert(at, format!("lose:{}", rng.below(3)));
    }
    if rng.chance(1, 6) {
        // one run happens while the disk is full; half the time the same revision runs again right afterwards
        let at = rng.below(runs.len() as u64) as usize;
        if !runs[at].contains(':') {
            let name = runs[at].clone();
            runs[at] = format!("full:{}:{}", name, *rng.pick(&[0u64, 1, 8, 16, 17, 64, 100, 200, 400, 1000, 4096]));
            if rng.chance(1, 2) {
                runs.insert(at + 1, name);
            }
        }
    }
    let start: String = if chain == "argv2" && rng.chance(2, 3) {
        "earlier-build".into()
    } else if ["plain", "recv", "bounds", "objs"].contains(&chain) && rng.chance(1, 5) {
        // the earlier format cannot say "async": only chains without async methods can have been recorded by it
        format!("legacy-format:{}", good[rng.below(good.len() as u64) as usize].name)
    } else {
        "empty".into()
    };
    History { chain: chain.to_string(), start, runs, fresh_process: thorough && rng.chance(1, 8), seed }
}

fn main() {
    let args: Vec<String> = std::env::args().collect();
    if std::env::var("SIM_LOUD").is_err() {
        simcore::install_silent_panic_hook();
    }
    let revs = revisions();
    match args.get(1).map(|s| s.as_str()).unwrap_or("") {
        "one" => {
            let dir = arg(&args, "--dir").expect("--dir");
            let rn = arg(&args, "--rev").expect("--rev");
            let rev = rev_by_name(&revs, &rn).expect("revision");
            if let Some(l) = arg(&args, "--fsize").and_then(|s| s.parse::<u64>().ok()) {
                unsafe {
                    libc::signal(libc::SIGXFSZ, libc::SIG_IGN);
                    let lim = libc::rlimit { rlim_cur: l as libc::rlim_t, rlim_max: l as libc::rlim_t };
                    libc::setrlimit(libc::RLIMIT_FSIZE, &lim);
                }
            }
            match (rev.verify)(&dir) {
                Ok(()) => std::process::exit(0),
                Err(e) => {
                    println!("{}", format!("{:?}", e).chars().take(300).collect::<String>());
                    std::process::exit(1)
                }
            }
        }
        "run" => {
            let seed: u64 = arg(&args, "--seed").and_then(|s| s.parse().ok()).unwrap_or(simcore::DEFAULT_SEED);
            let from: u64 = arg(&args, "--from").and_then(|s| s.parse().ok()).unwrap_or(0);
            let to: u64 = arg(&args, "--to").and_then(|s| s.parse().ok()).unwrap_or(1);
            let stride: u64 = arg(&args, "--stride").and_then(|s| s.parse().ok()).unwrap_or(1);
            let thorough = arg(&args, "--tier").as_deref() == Some("thorough");
            let deadline = arg(&args, "--max-seconds").and_then(|s| s.parse::<u64>().ok()).map(|s| std::time::Instant::now() + std::time::Duration::from_secs(s));
            let mut journal = Journal::open(arg(&args, "--journal").as_deref());
            let trace = flag(&args, "--trace");
            let mut stats = Stats::new();
            let mut i = from;
            while i < to {
                journal.line(&format!("BEGIN {}", i));
                // job 0..: a few fixed histories first (every pair of revisions of every chain, twice each), then seeded ones
                let h = fixed_or_seeded(i, seed, &revs, thorough);
                if trace {
                    journal.line(&format!("EVAL {}", h.to_json()));
                }
                let o = exec(&h, &revs);
                stats.inc("jobs");
                stats.add("evals", o.runs_done);
                stats.add("logical_steps", o.runs_done);
                stats.inc(&format!("chain.{}", h.chain));
                stats.inc(&format!("start.{}", h.start));
                if h.fresh_process {
                    stats.inc("histories_with_process_per_run");
                }
                for p in &o.probes {
                    stats.inc(&format!("probe.{}", p));
                }
                for oc in &o.outcomes {
                    stats.inc(&format!("outcome.{}", if oc.ends_with(":ok") { "ok" } else { "err" }));
                }
                stats.inc("evals_with_fault_fired"); // every run is a restart over surviving state
                stats.sig(format!("{}|{}|{}", h.chain, h.start, o.outcomes.join(">")));
                let e = stats.counters.entry("log_hash_acc".into()).or_insert(0);
                *e = e.wrapping_mul(0x100000001b3) ^ o.log_hash;
                match &o.violation {
                    Some(v) => {
                        stats.inc("violations_raw");
                        if stats.violations.len() < 40 && !stats.violations.iter().any(|x| x["oracle"] == json!(v.oracle) && x["signature"]["site"] == json!(v.site)) {
                            stats.violations.push(json!({
                                "job": i, "oracle": v.oracle, "detail": v.detail,
                                "signature": {"oracle": v.oracle, "engine": "simledger", "container": h.chain, "fault_kind": "restart", "site": v.site, "region": "-"},
                                "case": h.to_json(), "log_hash": format!("{:016x}", o.log_hash),
                            }));
                        }
                    }
                    None => stats.sample(&format!("{}-{}", h.chain, h.start), || json!({"history": h.to_json(), "outcomes": o.outcomes})),
                }
                journal.line(&format!("END {} 0 {:016x}", i, o.log_hash));
                i += stride;
                if let Some(d) = deadline {
                    if std::time::Instant::now() > d {
                        break;
                    }
                }
            }
            let mut out = stats.to_json();
            out["completed_to"] = json!(i);
            let s = serde_json::to_string(&out).unwrap();
            match arg(&args, "--out") {
                Some(p) => std::fs::write(p, s).expect("write out"),
                None => println!("{}", s),
            }
        }
        "replay" => {
            let v: Value = serde_json::from_str(&std::fs::read_to_string(args.get(2).expect("file")).expect("read")).expect("json");
            let cv = if v.get("case").is_some() { v["case"].clone() } else { v.clone() };
            let h = History::from_json(&cv);
            let o = exec(&h, &revs);
            let hash = format!("{:016x}", o.log_hash);
            match o.violation {
                Some(v) => {
                    println!("{}", json!({"verdict": "violation", "oracle": v.oracle, "detail": v.detail, "log_hash": hash, "outcomes": o.outcomes}));
                    std::process::exit(1)
                }
                None => {
                    println!("{}", json!({"verdict": "ok", "log_hash": hash, "outcomes": o.outcomes}));
                    std::process::exit(0)
                }
            }
        }
        "facts" => println!("{}", json!({"revisions": revs.iter().map(|r| json!({"chain": r.chain, "name": r.name, "latest_version": r.latest, "edit": r.edit})).collect::<Vec<_>>()})),
        _ => {
            eprintln!("usage: simledger run|replay|one|facts");
            std::process::exit(2)
        }
    }
}

/// The first jobs enumerate every ordered pair (a, b) of revisions of each chain as the histories [a, a, b, b]
/// (first use, unchanged re-run, evolution step, unchanged re-run), plus the earlier-build ledger; later jobs are seeded.
fn fixed_or_seeded(i: u64, seed: u64, revs: &[Rev], thorough: bool) -> History {
    let mut fixed: Vec<History> = Vec::new();
    for name in ["argv2", "argv2_next", "argv2_b_enum_arg"] {
        fixed.push(History { chain: "argv2".into(), start: "earlier-build".into(), runs: vec![name.into(), name.into(), "argv2".into()], fresh_process: false, seed: 0 });
    }
    for chain in ["plain", "async", "objs", "argv2", "bounds", "futs", "recv", "big"] {
        let m: Vec<&Rev> = revs.iter().filter(|r| r.chain == chain).collect();
        for a in &m {
            for b in &m {
                fixed.push(History { chain: chain.into(), start: "empty".into(), runs: vec![a.name.into(), a.name.into(), b.name.into(), b.name.into()], fresh_process: false, seed: 0 });
            }
        }
    }
    // a record goes missing between two revisions; a directory written by an earlier release
    for chain in ["plain", "recv"] {
        let m: Vec<&Rev> = revs.iter().filter(|r| r.chain == chain).collect();
        for a in &m {
            for b in &m {
                fixed.push(History { chain: chain.into(), start: "empty".into(), runs: vec![a.name.into(), "lose:0".into(), b.name.into(), b.name.into()], fresh_process: false, seed: 0 });
                if !a.name.contains("_b_") {
                    fixed.push(History { chain: chain.into(), start: format!("legacy-format:{}", a.name), runs: vec![a.name.into(), b.name.into(), b.name.into()], fresh_process: false, seed: 0 });
                }
            }
        }
    }
    if (i as usize) < fixed.len() {
        return fixed[i as usize].clone();
    }
    gen_history(mix(seed, "simledger-C15", i), revs, thorough)
}
