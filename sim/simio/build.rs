fn main() {
    println!("cargo:rerun-if-changed=csrc/jmp.c");
    cc::Build::new().file("csrc/jmp.c").opt_level(2).compile("simiojmp");
}
