/* setjmp/longjmp shim for the simulated allocator of simio.
 * The simulator owns the allocator: an allocation request above the configured limit is an injected
 * "allocation failure". In Rust an allocation failure aborts the process, which would end the worker;
 * instead the evaluation in flight is abandoned by jumping back to the guard frame below (the frames in
 * between are leaked, never resumed). setjmp lives in C because Rust cannot express returns_twice. */
#include <setjmp.h>
static __thread jmp_buf simio_jb;
static __thread int simio_armed = 0;
int simio_run_guarded(void (*f)(void *), void *arg) {
  if (setjmp(simio_jb) == 0) {
    simio_armed = 1;
    f(arg);
    simio_armed = 0;
    return 0;
  }
  simio_armed = 0;
  return 1;
}
/* returns only if no guard is armed */
int simio_bail(void) {
  if (simio_armed) {
    simio_armed = 0;
    longjmp(simio_jb, 1);
  }
  return 0;
}
