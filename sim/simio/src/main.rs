//! simio worker: deterministic device simulator for C06 / C07 / C08 / C14.
//!
//!   simio run --prop C08 --tier quick --seed S --from A --to B [--journal F] [--out F] [--only I --trace]
//!   simio replay FILE            (exit 0 = no violation, 1 = violation; prints one JSON line)
//!   simio facts                  (zoo facts for the evidence)
mod cases;
mod device;
mod gen;
mod simalloc;
mod zoo;

#[cfg(not(miri))]
#[global_allocator]
static GLOBAL: simalloc::SimAlloc = simalloc::SimAlloc;

use cases::*;
use device::*;
use serde_json::{json, Value};
use simcore::{arg, flag, mix, Journal, Rng, Stats};
use zoo::*;

/// CPU seconds (user+system of this process, ITIMER_PROF) one evaluation may consume before the process is ended by
/// SIGPROF. CPU time, not wall-clock time: a descheduled or swapped-out worker on a busy machine must not look hung.
const EVAL_CPU_SECONDS: i64 = 12;
#[repr(C)]
struct TimeVal {
    tv_sec: i64,
    tv_usec: i64,
}
#[repr(C)]
struct ITimerVal {
    it_interval: TimeVal,
    it_value: TimeVal,
}
extern "C" {
    fn setitimer(which: i32, new_value: *const ITimerVal, old_value: *mut ITimerVal) -> i32;
}
const ITIMER_PROF: i32 = 2;
#[cfg(miri)]
fn arm_cpu_watchdog(_seconds: i64) {}
#[cfg(not(miri))]
fn arm_cpu_watchdog(seconds: i64) {
    let it = ITimerVal { it_interval: TimeVal { tv_sec: 0, tv_usec: 0 }, it_value: TimeVal { tv_sec: seconds, tv_usec: 0 } };
    unsafe { setitimer(ITIMER_PROF, &it, std::ptr::null_mut()) };
}

struct Ctx {
    stats: Stats,
    journal: Journal,
    trace: bool,
    tier_thorough: bool,
    job: u64,
    seen_sigs: std::collections::BTreeSet<String>,
    viol_count: u64,
    /// child mode: this process is the supervised child; evaluation records are streamed to the
    /// supervisor through this pipe instead of being accounted locally
    emit: Option<std::fs::File>,
    /// evaluations of the first job still to be skipped (they were executed by a previous child)
    skip: u64,
    eval_idx: u64,
    /// fold of the event-log hashes of the evaluations of the current job (written to the journal's END line;
    /// the determinism self-test compares it between runs)
    job_hash: u64,
}
impl Ctx {
    /// run one explicit case inside an already prepared environment and account for it
    fn eval(&mut self, case: &Case, env: &mut Env) {
        let idx = self.eval_idx;
        self.eval_idx += 1;
        if self.skip > 0 {
            self.skip -= 1;
            return;
        }
        if self.trace {
            self.journal.line(&format!("EVAL {}", case.to_json()));
        }
        if let Some(f) = &mut self.emit {
            use std::io::Write;
            let mut cj = case.to_json();
            cj["_image_len"] = json!(env.ref_bytes.len());
            let _ = f.write_all(format!("B {} {} {}\n", self.job, idx, cj).as_bytes());
        }
        // CPU-loop watchdog: a retry loop that never touches the device cannot be stopped by the device's call
        // budget; SIGPROF (CPU-time timer) ends the process, the driver attributes the death to this evaluation
        arm_cpu_watchdog(EVAL_CPU_SECONDS);
        let r = exec_in(case, env);
        arm_cpu_watchdog(0);
        let out = match r {
            Ok(o) => o,
            Err(e) => {
                self.count("harness_error", 1);
                self.stats.sample("harness_error", || json!({"error": e, "case": case.to_json()}));
                return;
            }
        };
        let rec = AccountRec::new(case, env, EvalSummary::from_exec(&out));
        self.deliver(rec);
        if self.emit.is_some() && simalloc::REFUSALS.load(std::sync::atomic::Ordering::Relaxed) >= 128 {
            // every abandoned evaluation leaks what it had allocated (at most ALLOC_LIMIT each): recycle this
            // child so that the leak stays bounded; the supervisor resumes right after this evaluation
            use std::io::Write;
            let _ = self.emit.as_mut().unwrap().write_all(b"R recycle\n");
            unsafe { libc::_exit(0) };
        }
    }
    /// C06 quantifies over ALL byte strings, valid files included: if the fault-free reference run of an undamaged
    /// file PANICS (not: returns an error, not: round-trips to another value - those belong to other properties),
    /// that is a violation in its own right, reported as the case `intact`.
    fn intact_failed(&mut self, base: &Case, err: &str) {
        if base.prop != "C06" || !err.contains("panicked") {
            return;
        }
        let mut c = base.clone();
        c.config = "intact".into();
        let site: String = err.rsplit(" at ").next().unwrap_or("?").chars().take(80).collect();
        let rec = AccountRec {
            job: self.job,
            case: c.to_json(),
            config: c.config.clone(),
            container: c.container.name().to_string(),
            wrappers: c.container.wrappers().to_string(),
            subject: c.subject.clone(),
            bufsize: c.bufsize,
            encrypted: c.container.encrypted(),
            multi_chunk: false,
            sig_region: "-".into(),
            summary: EvalSummary {
                outcome: "panic".into(),
                fired: vec![],
                probes: vec![],
                violation: Some(Violation { oracle: "C06.intact.panic".into(), detail: format!("saving/loading an UNDAMAGED file panicked: {}", err), fault_kind: "none".into(), region: "-".into(), site }),
                log_hash: 0,
                steps: 0,
                note: String::new(),
            },
        };
        self.deliver(rec);
    }
    fn deliver(&mut self, rec: AccountRec) {
        if let Some(f) = &mut self.emit {
            use std::io::Write;
            let _ = f.write_all(format!("E {}\n", rec.to_json()).as_bytes());
        } else {
            self.account(&rec);
        }
    }
    /// generic counter (streamed to the supervisor in child mode)
    fn count(&mut self, key: &str, n: u64) {
        if self.skip > 0 {
            return; // resuming inside a job: its prologue was already counted by the previous child
        }
        if let Some(f) = &mut self.emit {
            use std::io::Write;
            let _ = f.write_all(format!("C {} {}\n", n, key).as_bytes());
        } else {
            self.stats.add(key, n);
        }
    }
    fn account(&mut self, r: &AccountRec) {
        let j = &r.summary;
        self.stats.inc("evals");
        self.stats.add("logical_steps", j.steps);
        self.stats.inc(&format!("config.{}", r.config));
        self.stats.inc(&format!("outcome.{}", j.outcome));
        self.stats.inc(&format!("container.{}", r.container));
        for f in &j.fired {
            self.stats.inc(&format!("fired.{}", f));
        }
        for p in &j.probes {
            self.stats.inc(&format!("probe.{}", p));
        }
        if r.encrypted {
            self.stats.inc(&format!("bufsize.{}", r.bufsize));
            if r.multi_chunk {
                self.stats.inc("probe.multi_chunk_file");
            }
        }
        if !j.fired.is_empty() {
            self.stats.inc("evals_with_fault_fired");
            let (kind, region) = match &j.violation {
                Some(v) => (v.fault_kind.clone(), v.region.clone()),
                None => (j.fired.join("+"), r.sig_region.clone()),
            };
            self.stats.sig(format!("{}|{}|{}|{}|{}|{}", r.config, r.subject, r.container, kind, region, j.outcome));
        }
        let e = self.stats.counters.entry("log_hash_acc".into()).or_insert(0);
        *e = e.wrapping_mul(0x100000001b3) ^ j.log_hash;
        self.job_hash = self.job_hash.wrapping_mul(0x100000001b3) ^ j.log_hash;
        if let Some(v) = &j.violation {
            self.viol_count += 1;
            self.stats.inc("violations_raw");
            let sig = json!({
                "oracle": v.oracle, "engine": "simio", "container": r.container, "wrappers": r.wrappers,
                "fault_kind": v.fault_kind, "region": v.region, "site": v.site, "type_class": r.subject,
            });
            let key = format!("{}|{}|{}|{}|{}", v.oracle, r.container, v.fault_kind, v.site, v.region);
            if self.seen_sigs.insert(key) && self.stats.violations.len() < 40 {
                self.stats.violations.push(json!({
                    "job": r.job, "oracle": v.oracle, "detail": v.detail, "signature": sig,
                    "case": r.case, "log_hash": format!("{:016x}", j.log_hash),
                }));
            }
        } else {
            let kind = format!("{}:{}", r.config, j.outcome);
            self.stats.sample(&kind, || json!({"case": r.case, "outcome": j.outcome, "fired": j.fired, "note": j.note}));
        }
    }
}

/// everything the accounting needs about one evaluation (crosses the pipe in supervised mode)
struct AccountRec {
    job: u64,
    case: Value,
    config: String,
    container: String,
    wrappers: String,
    subject: String,
    bufsize: u64,
    encrypted: bool,
    multi_chunk: bool,
    sig_region: String,
    summary: EvalSummary,
}
impl AccountRec {
    fn new(case: &Case, env: &Env, summary: EvalSummary) -> AccountRec {
        AccountRec {
            job: 0,
            case: case.to_json(),
            config: case.config.clone(),
            container: case.container.name().to_string(),
            wrappers: case.container.wrappers().to_string(),
            subject: case.subject.clone(),
            bufsize: case.bufsize,
            encrypted: case.container.encrypted(),
            multi_chunk: env.regions.iter().filter(|r| r.2.ends_with("-len")).count() >= 2,
            sig_region: sig_region(case, env),
            summary,
        }
    }
    fn to_json(&self) -> Value {
        json!({"case": self.case, "multi_chunk": self.multi_chunk, "sig_region": self.sig_region, "summary": self.summary.to_json()})
    }
    fn from_json(v: &Value, job: u64) -> AccountRec {
        let case = Case::from_json(&v["case"]);
        AccountRec {
            job,
            case: v["case"].clone(),
            config: case.config.clone(),
            container: case.container.name().to_string(),
            wrappers: case.container.wrappers().to_string(),
            subject: case.subject.clone(),
            bufsize: case.bufsize,
            encrypted: case.container.encrypted(),
            multi_chunk: v["multi_chunk"].as_bool().unwrap_or(false),
            sig_region: simcore::js(v, "sig_region").to_string(),
            summary: EvalSummary::from_json(&v["summary"]),
        }
    }
}

fn forked_summary(case: &Case, env: &mut Env, child_as_limit: u64) -> Result<EvalSummary, String> {
    use std::io::Read;
    use std::os::unix::io::FromRawFd;
    let mut out_fds = [0i32; 2];
    let mut err_fds = [0i32; 2];
    unsafe {
        if libc::pipe(out_fds.as_mut_ptr()) != 0 || libc::pipe(err_fds.as_mut_ptr()) != 0 {
            return Err("pipe failed".into());
        }
    }
    let pid = unsafe { libc::fork() };
    if pid < 0 {
        return Err("fork failed".into());
    }
    if pid == 0 {
        // child
        unsafe {
            libc::close(out_fds[0]);
            libc::close(err_fds[0]);
            libc::dup2(err_fds[1], 2);
            let lim = libc::rlimit { rlim_cur: child_as_limit, rlim_max: child_as_limit };
            libc::setrlimit(libc::RLIMIT_AS, &lim);
        }
        let s = match exec_in(case, env) {
            Ok(o) => EvalSummary::from_exec(&o).to_json().to_string(),
            Err(e) => json!({"harness_error": e}).to_string(),
        };
        unsafe {
            let b = s.as_bytes();
            let mut off = 0;
            while off < b.len() {
                let n = libc::write(out_fds[1], b[off..].as_ptr() as *const libc::c_void, b.len() - off);
                if n <= 0 {
                    break;
                }
                off += n as usize;
            }
            libc::_exit(0);
        }
    }
    // parent
    let (mut o, mut e) = unsafe {
        libc::close(out_fds[1]);
        libc::close(err_fds[1]);
        (std::fs::File::from_raw_fd(out_fds[0]), std::fs::File::from_raw_fd(err_fds[0]))
    };
    let mut outs = String::new();
    let mut errs = String::new();
    let _ = o.read_to_string(&mut outs);
    let mut errb = Vec::new();
    let _ = e.read_to_end(&mut errb);
    errs.push_str(&String::from_utf8_lossy(&errb));
    let mut status = 0i32;
    unsafe {
        libc::waitpid(pid, &mut status, 0);
    }
    let signaled = libc::WIFSIGNALED(status);
    if !signaled && libc::WIFEXITED(status) && libc::WEXITSTATUS(status) == 0 {
        match serde_json::from_str::<Value>(&outs) {
            Ok(v) if v.get("harness_error").is_none() => return Ok(EvalSummary::from_json(&v)),
            _ => return Err(outs),
        }
    }
    // the child died: an allocation failure on an absurd declared length is the exempted OOM class
    let image_len = env.ref_bytes.len();
    let (kind, pos) = match case.media.first() {
        Some(m) => (m.kind(), m.first_pos()),
        None => ("none", 0),
    };
    let region = region_of(env, pos).to_string();
    let sig = if signaled { libc::WTERMSIG(status) } else { -libc::WEXITSTATUS(status) };
    let sum = if is_oom_class(&errs, image_len) {
        EvalSummary { outcome: "oom-class(abort)".into(), fired: vec![kind.to_string()], probes: vec![], violation: None, log_hash: 0x00c1a55, steps: 0, note: String::new() }
    } else {
        let cls = if errs.contains("memory allocation of") { "small-allocation-failed".to_string() } else if errs.contains("non-unwinding panic") || errs.contains("panic in a destructor") { "double-panic-abort".to_string() } else { format!("signal-{}", sig) };
        EvalSummary {
            outcome: "abort".into(),
            fired: vec![kind.to_string()],
            probes: vec![],
            violation: Some(Violation {
                oracle: format!("{}.{}.abort", case.prop, case.config),
                detail: format!("the process died (signal {}) while loading the damaged image: {}", sig, errs.trim().chars().take(300).collect::<String>()),
                fault_kind: kind.to_string(),
                region,
                site: cls,
            }),
            log_hash: 0x0ab0,
            steps: 0,
            note: String::new(),
        }
    };
    Ok(sum)
}

fn sig_region(case: &Case, env: &Env) -> String {
    // region of the first planned fault
    let mut pos: Option<u64> = None;
    for (o, _) in case.wplan.at_offset.iter().chain(case.rplan.at_offset.iter()) {
        pos = Some(pos.map_or(*o, |p: u64| p.min(*o)));
    }
    if let Some(m) = case.media.first() {
        pos = Some(m.first_pos());
    }
    match pos {
        Some(p) => region_of(env, p).to_string(),
        None => "-".to_string(),
    }
}

// ---------------------------------------------------------------------------------------------
// enumeration jobs
// ---------------------------------------------------------------------------------------------
fn cut_points(env: &Env, rng: &mut Rng, all_upto: u64, sample: u64) -> (Vec<u64>, bool) {
    let len = env.ref_bytes.len() as u64;
    if len <= all_upto {
        return ((0..len).collect(), true);
    }
    let mut v: Vec<u64> = Vec::new();
    for b in boundaries(env) {
        for d in 0..64 {
            if b + d < len {
                v.push(b + d);
            }
            if b >= d && b - d < len {
                v.push(b - d);
            }
        }
    }
    for _ in 0..sample {
        v.push(rng.below(len));
    }
    v.sort();
    v.dedup();
    // keep the cost of a sampled file comparable to an exhaustive one
    // (a save or load of a large file costs proportionally more: fewer points there)
    let cap = if len > 32 * 1024 { if env.container.compressed() { 40 } else { 160 } } else { all_upto.max(600) as usize };
    if v.len() > cap {
        let step = v.len().div_ceil(cap);
        let off = rng.below(step as u64) as usize;
        v = v.into_iter().skip(off).step_by(step).collect();
    }
    (v, false)
}

fn enum_c08(ctx: &mut Ctx, seed: u64) -> Result<(), String> {
    let mut rng = Rng::new(seed);
    let mut base = gen::gen_base("C08", &mut rng, true, seed);
    base.load_key = base.key;
    let mut env = prepare(&base)?;
    let len = env.ref_bytes.len() as u64;
    // a save through bzip2 costs ~1-2 ms (the encoder allocates and initialises ~8 MB): enumerate smaller files there
    let limit = match (ctx.tier_thorough, base.container.compressed()) {
        (true, false) => 4096,
        (true, true) => 1500,
        (false, false) => 1200,
        (false, true) => 350,
    };
    let (points, exhaustive) = cut_points(&env, &mut rng, limit, if base.container.compressed() { 32 } else { 128 });
    let variant = rng.below(4);
    ctx.count(&format!("enum.c08.variant{}", variant), 1);
    if exhaustive {
        ctx.count("enum.files_exhaustive", 1);
    } else {
        ctx.count("enum.files_sampled", 1);
    }
    match variant {
        0 => {
            // single hard write error at every byte offset, permanent and transient
            for &k in points.iter().chain(std::iter::once(&len)) {
                for perm in [true, false] {
                    let mut c = base.clone();
                    c.config = "hard-write".into();
                    c.wplan.at_offset.push((k, Act::Err(ErrKind::ALL[(k % 8) as usize], perm)));
                    ctx.eval(&c, &mut env);
                }
            }
        }
        1 => {
            // (real files, cheap: the same job also takes every *_file saver through a full disk)
            if let Some(kind) = RealKind::of_container(base.container) {
                if len < 3000 {
                    realfile_fulldisk(ctx, &base, &env, kind)?;
                }
            }
            // single hard read error at every byte offset
            for &k in &points {
                let mut c = base.clone();
                c.config = "hard-read".into();
                c.rplan.at_offset.push((k, Act::Err(ErrKind::ALL[(k % 8) as usize], k % 2 == 0)));
                ctx.eval(&c, &mut env);
            }
        }
        2 => {
            // single EINTR / single 1-byte short write before every call j, and EINTR at every offset
            for j in 0..env.ref_write_calls.min(limit) {
                for a in [Act::Eintr, Act::Short(1)] {
                    let mut c = base.clone();
                    c.config = "benign-write".into();
                    c.wplan.overrides.push((j, a));
                    ctx.eval(&c, &mut env);
                }
            }
            for &k in &points {
                let mut c = base.clone();
                c.config = "benign-write".into();
                c.wplan.at_offset.push((k, Act::Eintr));
                ctx.eval(&c, &mut env);
            }
        }
        _ => {
            // single EINTR at every read offset (the reader is forced to stop exactly there first)
            for &k in &points {
                for a in [Act::Eintr, Act::Short(1)] {
                    let mut c = base.clone();
                    c.config = "benign-read".into();
                    c.rplan.at_offset.push((k, a));
                    ctx.eval(&c, &mut env);
                }
            }
        }
    }
    Ok(())
}

fn enum_c07(ctx: &mut Ctx, seed: u64) -> Result<(), String> {
    let mut rng = Rng::new(seed);
    let mut base = gen::gen_base("C07", &mut rng, false, seed);
    base.load_key = base.key;
    let mut env = prepare(&base)?;
    let limit = match (ctx.tier_thorough, base.container.compressed()) {
        (true, false) => 8192,
        (true, true) => 2500,
        (false, false) => 1500,
        (false, true) => 500,
    };
    let (points, exhaustive) = cut_points(&env, &mut rng, limit, if base.container.compressed() { 64 } else { 512 });
    ctx.count(if exhaustive { "enum.files_exhaustive" } else { "enum.files_sampled" }, 1);
    let noise = if rng.chance(1, 2) { gen::benign_plan(&mut rng, &env, env.ref_read_calls, true) } else { IoPlan::default() };
    for &k in &points {
        // (b) direct truncation of the reference bytes
        let mut c = base.clone();
        c.config = "truncate".into();
        c.media.push(MediaOp::Cut(k));
        c.rplan = noise.clone();
        ctx.eval(&c, &mut env);
        // (a) crash during save: the writer dies permanently at byte k
        let mut c = base.clone();
        c.config = "crash-save".into();
        c.wplan.at_offset.push((k, Act::Err(ErrKind::Other, true)));
        c.rplan = noise.clone();
        ctx.eval(&c, &mut env);
    }
    // the *_file convenience wrappers on a real file (they add their own buffering, open/retry logic and Drop order)
    if let Some(kind) = RealKind::of_container(base.container) {
        if env.ref_bytes.len() < 3000 {
            realfile_truncations(ctx, &base, &env, "C07", kind)?;
            if kind == RealKind::Plain {
                // the in-memory pair save_to_mem / load_from_mem (a slice as the reader)
                realfile_truncations(ctx, &base, &env, "C07", RealKind::Mem)?;
            }
        }
    }
    Ok(())
}

/// every truncation length of a real file written by save_encrypted_file, read by load_encrypted_file
fn realfile_truncations(ctx: &mut Ctx, base: &Case, env: &Env, prop: &str, kind: RealKind) -> Result<(), String> {
    if env.subj.name() == "CryptoPipe" {
        return Ok(());
    }
    let dir = tmp_dir();
    let path = dir.join(format!("enc_{}.bin", std::process::id()));
    let password = format!("pw-{}", base.key);
    let cfg_name: String = if kind == RealKind::Encrypted { "realfile-truncate".into() } else { format!("realfile-truncate-{}", kind.name()) };
    set_hooks(base);
    if let Err(e) = env.subj.save_real(&env.value, &path, kind, &password) {
        return Err(format!("save to a real file ({}) failed: {:?}", kind.name(), e));
    }
    let full = std::fs::read(&path).map_err(|e| e.to_string())?;
    // sanity: intact file loads
    arm_cpu_watchdog(EVAL_CPU_SECONDS);
    let intact = simcore::guarded(|| env.subj.load_real(&path, kind, &password));
    arm_cpu_watchdog(0);
    match intact {
        Ok(Ok(v)) if env.subj.same(&v, &env.value) => {}
        other => {
            let _ = std::fs::remove_file(&path);
            return Err(format!("intact real encrypted file did not load back: {}", match other { Ok(Ok(_)) => "different value".to_string(), Ok(Err(e)) => format!("{:?}", e), Err(p) => p.msg }));
        }
    }
    for k in 0..full.len() {
        if ctx.trace {
            ctx.journal.line(&format!("EVAL {}", json!({"realfile": true, "cut": k, "prop": prop, "case": base.to_json()})));
        }
        std::fs::write(&path, &full[..k]).map_err(|e| e.to_string())?;
        arm_cpu_watchdog(EVAL_CPU_SECONDS);
        let r = simcore::guarded(|| env.subj.load_real(&path, kind, &password));
        arm_cpu_watchdog(0);
        ctx.stats.inc("evals");
        ctx.stats.inc(&format!("config.{}", cfg_name));
        ctx.stats.inc("fired.cut");
        ctx.stats.inc("evals_with_fault_fired");
        let region = if kind == RealKind::Encrypted { if k < 12 { "nonce" } else { "body" } } else if k < 16 { "header" } else { "body" };
        let (outcome, viol): (&str, Option<(String, String, String)>) = match r {
            Ok(Ok(v)) => {
                if prop == "C14" {
                    ("ok", Some((format!("{}.realfile-truncate.accepted", prop), format!("the *_file loader accepted a file truncated to {} of {} bytes", k, full.len()), "load-returned-ok".to_string())))
                } else if env.subj.same(&v, &env.value) {
                    ("ok-original", None)
                } else {
                    ("ok", Some((format!("{}.realfile-truncate.accepted-different", prop), format!("the *_file loader returned a different value for a file truncated to {} of {} bytes", k, full.len()), "load-returned-ok".to_string())))
                }
            }
            Ok(Err(_)) => ("err", None),
            Err(p) => ("panic", Some((format!("{}.realfile-truncate.panic", prop), format!("the *_file loader panicked on a file truncated to {} bytes: {} at {}", k, p.msg, p.site()), format!("{}:{}", p.site_file(), p.msg.chars().take(48).collect::<String>().replace(|c: char| c.is_ascii_digit(), "#"))))),
        };
        ctx.stats.inc(&format!("outcome.{}", outcome));
        ctx.stats.sig(format!("{}|{}|{}|cut|{}|{}", cfg_name, base.subject, base.container.name(), region, outcome));
        if let Some((oracle, detail, site)) = viol {
            ctx.viol_count += 1;
            ctx.stats.inc("violations_raw");
            let key = format!("{}|{}|{}", oracle, site, region);
            if ctx.seen_sigs.insert(key) && ctx.stats.violations.len() < 40 {
                let mut c = base.clone();
                c.config = cfg_name.clone();
                c.media = vec![MediaOp::Cut(k as u64)];
                ctx.stats.violations.push(json!({
                    "job": ctx.job, "oracle": oracle, "detail": detail,
                    "signature": {"oracle": oracle, "engine": "simio", "container": format!("{}(real file)", kind.name()), "wrappers": base.container.wrappers(), "fault_kind": "cut", "region": region, "site": site, "type_class": base.subject},
                    "case": c.to_json(), "log_hash": "-",
                }));
            }
        }
    }
    let _ = std::fs::remove_file(&path);
    Ok(())
}
/// soft RLIMIT_FSIZE around `f` (the disk-full fault for code that writes real files; SIGXFSZ is ignored process-wide)
fn with_file_size_limit<T>(limit: u64, f: impl FnOnce() -> T) -> T {
    unsafe {
        libc::signal(libc::SIGXFSZ, libc::SIG_IGN);
        let mut old = libc::rlimit { rlim_cur: 0, rlim_max: 0 };
        libc::getrlimit(libc::RLIMIT_FSIZE, &mut old);
        let new = libc::rlimit { rlim_cur: limit as libc::rlim_t, rlim_max: old.rlim_max };
        libc::setrlimit(libc::RLIMIT_FSIZE, &new);
        let r = f();
        libc::setrlimit(libc::RLIMIT_FSIZE, &old);
        r
    }
}
/// one save through a `*_file` wrapper while no file may grow beyond `k` bytes; returns (violation, outcome)
fn fulldisk_once(env: &Env, base: &Case, kind: RealKind, path: &std::path::Path, full: &[u8], k: usize) -> (Option<(String, String, String)>, &'static str) {
    let password = format!("pw-{}", base.key);
    let _ = std::fs::remove_file(path);
    set_hooks(base);
    arm_cpu_watchdog(EVAL_CPU_SECONDS);
    let r = with_file_size_limit(k as u64, || simcore::guarded(|| env.subj.save_real(&env.value, path, kind, &password)));
    arm_cpu_watchdog(0);
    let got = std::fs::read(path).unwrap_or_default();
    let o = |s: &str| format!("C08.realfile-full-disk.{}", s);
    match r {
        Err(p) => (Some((o("panic"), format!("the *_file saver panicked when the file could not grow beyond {} bytes: {} at {}", k, p.msg, p.site()), format!("{}:{}", p.site_file(), p.msg.chars().take(48).collect::<String>().replace(|c: char| c.is_ascii_digit(), "#")))), "panic"),
        Ok(Ok(())) if k < full.len() => (Some((o("silent-success"), format!("the file could not grow beyond {} of {} bytes, yet the *_file saver returned Ok ({} bytes on disk)", k, full.len(), got.len()), "save-returned-ok".into())), "ok"),
        Ok(Ok(())) => (None, "ok-complete"),
        Ok(Err(_)) => {
            if got.len() > k || got.len() > full.len() || full[..got.len()] != got[..] {
                (Some((o("prefix"), format!("after the failed save the file holds {} bytes that are not a prefix of the fault-free file (limit {}, fault-free {} bytes)", got.len(), k, full.len()), "bytes".into())), "err")
            } else {
                (None, "err")
            }
        }
    }
}
/// C08 on real files: every `*_file` saver under a full disk at every file size limit k < len
fn realfile_fulldisk(ctx: &mut Ctx, base: &Case, env: &Env, kind: RealKind) -> Result<(), String> {
    if env.subj.name() == "CryptoPipe" {
        return Ok(());
    }
    let path = tmp_dir().join(format!("full_{}.bin", std::process::id()));
    let password = format!("pw-{}", base.key);
    let cfg_name = format!("realfile-full-disk-{}", kind.name());
    set_hooks(base);
    if let Err(e) = env.subj.save_real(&env.value, &path, kind, &password) {
        return Err(format!("save to a real file ({}) failed: {:?}", kind.name(), e));
    }
    let full = std::fs::read(&path).map_err(|e| e.to_string())?;
    let mut ks: Vec<usize> = if full.len() <= 600 { (0..full.len()).collect() } else { (0..full.len()).step_by(full.len() / 300 + 1).collect() };
    for x in [0usize, 1, 8191, 8192, 8193, full.len().saturating_sub(1), full.len().saturating_sub(2)] {
        if x < full.len() {
            ks.push(x);
        }
    }
    ks.sort();
    ks.dedup();
    for k in ks {
        if ctx.trace {
            let mut c = base.clone();
            c.config = cfg_name.clone();
            c.media = vec![MediaOp::Cut(k as u64)];
            let cj = c.to_json();
            ctx.journal.line(&format!("EVAL {}", json!({"realfile": true, "cut": k, "prop": "C08", "case": cj})));
        }
        let (viol, outcome) = fulldisk_once(env, base, kind, &path, &full, k);
        ctx.stats.inc("evals");
        ctx.stats.inc(&format!("config.{}", cfg_name));
        ctx.stats.inc("fired.disk-full");
        ctx.stats.inc("evals_with_fault_fired");
        ctx.stats.inc(&format!("outcome.{}", outcome));
        ctx.stats.sig(format!("{}|{}|{}|disk-full|{}|{}", cfg_name, base.subject, base.container.name(), if k < 16 { "header" } else { "body" }, outcome));
        if let Some((oracle, detail, site)) = viol {
            ctx.viol_count += 1;
            ctx.stats.inc("violations_raw");
            let key = format!("{}|{}|{}", oracle, site, kind.name());
            if ctx.seen_sigs.insert(key) && ctx.stats.violations.len() < 40 {
                let mut c = base.clone();
                c.config = cfg_name.clone();
                c.media = vec![MediaOp::Cut(k as u64)];
                ctx.stats.violations.push(json!({
                    "job": ctx.job, "oracle": oracle, "detail": detail,
                    "signature": {"oracle": oracle, "engine": "simio", "container": format!("{}(real file)", kind.name()), "wrappers": base.container.wrappers(), "fault_kind": "disk-full", "region": if k < 16 { "header" } else { "body" }, "site": site, "type_class": base.subject},
                    "case": c.to_json(), "log_hash": "-",
                }));
            }
        }
    }
    let _ = std::fs::remove_file(&path);
    Ok(())
}
/// replay of a real-file full-disk case
fn exec_realfile_full(case: &Case) -> Result<(Option<(String, String)>, &'static str), String> {
    let env = prepare(case)?;
    let path = tmp_dir().join(format!("replay_full_{}.bin", std::process::id()));
    let kind = RealKind::from_config(&case.config);
    let password = format!("pw-{}", case.key);
    set_hooks(case);
    env.subj.save_real(&env.value, &path, kind, &password).map_err(|e| format!("{:?}", e))?;
    let full = std::fs::read(&path).map_err(|e| e.to_string())?;
    let k = match case.media.first() {
        Some(MediaOp::Cut(k)) => (*k as usize).min(full.len()),
        _ => full.len(),
    };
    let (v, outcome) = fulldisk_once(&env, case, kind, &path, &full, k);
    let _ = std::fs::remove_file(&path);
    Ok((v.map(|(o, d, _)| (o, d)), outcome))
}

fn tmp_dir() -> std::path::PathBuf {
    let d = std::env::var("SIM_TMP").unwrap_or_else(|_| "/verif/.work/tmp".to_string());
    let p = std::path::PathBuf::from(d);
    let _ = std::fs::create_dir_all(&p);
    p
}
/// replay of a real-file truncation case
fn exec_realfile(case: &Case) -> Result<(Option<(String, String)>, &'static str), String> {
    let env = prepare(case)?;
    let dir = tmp_dir();
    let path = dir.join(format!("replay_{}.bin", std::process::id()));
    let password = format!("pw-{}", case.key);
    set_hooks(case);
    let kind = RealKind::from_config(&case.config);
    env.subj.save_real(&env.value, &path, kind, &password).map_err(|e| format!("{:?}", e))?;
    let full = std::fs::read(&path).map_err(|e| e.to_string())?;
    let k = match case.media.first() {
        Some(MediaOp::Cut(k)) => (*k as usize).min(full.len()),
        _ => full.len(),
    };
    std::fs::write(&path, &full[..k]).map_err(|e| e.to_string())?;
    arm_cpu_watchdog(EVAL_CPU_SECONDS);
    let r = simcore::guarded(|| env.subj.load_real(&path, kind, &password));
    arm_cpu_watchdog(0);
    let _ = std::fs::remove_file(&path);
    Ok(match r {
        Ok(Ok(v)) => {
            if case.prop == "C14" && k < full.len() {
                (Some((format!("{}.realfile-truncate.accepted", case.prop), "accepted".into())), "ok")
            } else if env.subj.same(&v, &env.value) {
                (None, "ok-original")
            } else {
                (Some((format!("{}.realfile-truncate.accepted-different", case.prop), "different value".into())), "ok")
            }
        }
        Ok(Err(_)) => (None, "err"),
        Err(p) => (Some((format!("{}.realfile-truncate.panic", case.prop), format!("{} at {}", p.msg, p.site()))), "panic"),
    })
}

fn chunk_ranges(env: &Env) -> Vec<(u64, u64)> {
    // (start of 8-byte length, end of tag) for every chunk
    let mut v = Vec::new();
    let mut cur: Option<u64> = None;
    for (s, e, l) in &env.regions {
        if l.ends_with("-len") {
            cur = Some(*s);
        }
        if l.ends_with("-tag") {
            if let Some(st) = cur.take() {
                v.push((st, *e));
            }
        }
    }
    v
}

fn enum_c14(ctx: &mut Ctx, seed: u64) -> Result<(), String> {
    let mut rng = Rng::new(seed);
    let mode = rng.below(10);
    let mut base = gen::gen_base("C14", &mut rng, mode < 4 || !ctx.tier_thorough, seed);
    base.load_key = base.key;
    if mode < 4 {
        // tiny values so that the full position x value enumeration is affordable; tiny chunks so that
        // even these files are multi-chunk
        base.sc = base.sc.min(if ctx.tier_thorough { 2 } else { 1 });
        if rng.chance(2, 3) {
            base.bufsize = *rng.pick(&[17u64, 61, 64]);
        }
    }
    let mut env = prepare(&base)?;
    let len = env.ref_bytes.len() as u64;
    ctx.count(&format!("enum.c14.mode{}", match mode { 0..=3 => "A-pos-x-value", 4..=6 => "B-bitflips+cuts", 7..=8 => "C-chunk-ops", _ => "D-passwords+realfile" }), 1);
    let noise = if rng.chance(1, 3) { gen::benign_plan(&mut rng, &env, env.ref_read_calls, true) } else { IoPlan::default() };
    let mk = |base: &Case, cfg: &str, m: Vec<MediaOp>| -> Case {
        let mut c = base.clone();
        c.config = cfg.into();
        c.media = m;
        c.rplan = noise.clone();
        c
    };
    match mode {
        0..=3 => {
            let maxlen = if ctx.tier_thorough { 700 } else { 260 };
            if len <= maxlen {
                ctx.count("enum.files_exhaustive", 1);
                for p in 0..len {
                    let orig = env.ref_bytes[p as usize];
                    for v in 0..=255u8 {
                        if v != orig {
                            let c = mk(&base, "media", vec![MediaOp::Set(p, v)]);
                            ctx.eval(&c, &mut env);
                        }
                    }
                }
            } else {
                ctx.count("enum.files_sampled", 1);
                let (points, _) = cut_points(&env, &mut rng, 0, 256);
                for p in points {
                    for bit in 0..8 {
                        let c = mk(&base, "media", vec![MediaOp::Xor(p, 1 << bit)]);
                        ctx.eval(&c, &mut env);
                    }
                }
            }
            for k in 0..len.min(4096) {
                let c = mk(&base, "media", vec![MediaOp::Cut(k)]);
                ctx.eval(&c, &mut env);
            }
        }
        4..=6 => {
            let (points, ex) = cut_points(&env, &mut rng, if ctx.tier_thorough { 16384 } else { 2500 }, 256);
            ctx.count(if ex { "enum.files_exhaustive" } else { "enum.files_sampled" }, 1);
            for &p in &points {
                for bit in 0..8 {
                    let c = mk(&base, "media", vec![MediaOp::Xor(p, 1 << bit)]);
                    ctx.eval(&c, &mut env);
                }
                let c = mk(&base, "media", vec![MediaOp::Cut(p)]);
                ctx.eval(&c, &mut env);
            }
        }
        7..=8 => {
            let chunks = chunk_ranges(&env);
            ctx.count("enum.c14.chunks", chunks.len() as u64);
            let n = chunks.len().min(40);
            for i in 0..n {
                let (s, e) = chunks[i];
                ctx.eval(&mk(&base, "media", vec![MediaOp::Drop(s, e - s)]), &mut env);
                ctx.eval(&mk(&base, "media", vec![MediaOp::Dup(s, e - s)]), &mut env);
                ctx.eval(&mk(&base, "media", vec![MediaOp::Gen2(s, e - s)]), &mut env);
                ctx.eval(&mk(&base, "media", vec![MediaOp::Gen2(s + 8, e - s - 8)]), &mut env);
                ctx.eval(&mk(&base, "media", vec![MediaOp::Cut(s)]), &mut env);
                ctx.eval(&mk(&base, "media", vec![MediaOp::Cut(e)]), &mut env);
                for j in (i + 1)..n {
                    let (s2, e2) = chunks[j];
                    if e2 - s2 == e - s {
                        ctx.eval(&mk(&base, "media", vec![MediaOp::Swap(s, s2, e - s)]), &mut env);
                    }
                    // body of chunk j copied over body of chunk i (same length prefix region kept)
                    ctx.eval(&mk(&base, "media", vec![MediaOp::Copy(s2 + 8, s + 8, (e - s - 8).min(e2 - s2 - 8))]), &mut env);
                }
            }
            // sector-level damage
            for _ in 0..64 {
                let lens: Vec<u64> = Vec::new();
                let c = mk(&base, "media", vec![gen::media_op(&mut rng, &env, &lens)]);
                ctx.eval(&c, &mut env);
            }
        }
        _ => {
            // wrong keys (device path) ...
            for k in 0..=255u8 {
                if k != base.key {
                    let mut c = mk(&base, "wrong-password", vec![]);
                    c.load_key = k;
                    ctx.eval(&c, &mut env);
                }
            }
            // ... and wrong passwords, including near misses, through the real file functions
            realfile_passwords(ctx, &base, &env)?;
            if env.ref_bytes.len() < 3000 {
                realfile_truncations(ctx, &base, &env, "C14", RealKind::Encrypted)?;
            }
        }
    }
    Ok(())
}

fn realfile_passwords(ctx: &mut Ctx, base: &Case, env: &Env) -> Result<(), String> {
    let dir = tmp_dir();
    let path = dir.join(format!("encpw_{}.bin", std::process::id()));
    // short and long passwords (long ones cross SHA-256's 64-byte block size once and twice)
    let password = match base.key % 3 {
        0 => format!("Pass-{}-word", base.key),
        1 => format!("Pass-{}-{}-tail{}", base.key, "x".repeat(58), base.key),
        _ => format!("Pass-{}-{}-tail{}", base.key, "correct horse battery staple ".repeat(4), base.key),
    };
    let password = if base.gen_seed % 4 == 0 { format!("{}\n", password) } else { password };
    // a third of the passwords are not ASCII (accented letters, a non-BMP character)
    let password = if base.gen_seed % 3 == 1 { password.replacen("Pass", "Pässwörd-é€𝄞", 1) } else { password };
    set_hooks(base);
    env.subj.save_encrypted_file(&env.value, &path, true, &password).map_err(|e| format!("{:?}", e))?;
    let flip_last = |s: &str, back: usize| -> String {
        let mut b: Vec<char> = s.chars().collect();
        let i = b.len().saturating_sub(1 + back);
        b[i] = if b[i] == 'q' { 'r' } else { 'q' };
        b.into_iter().collect()
    };
    // unicode near misses: one character replaced by the one 256 / 65536 code points further on (same low byte),
    // by its other normalisation-free look-alike, and the whole password with every non-ASCII character dropped
    let shift = |s: &str, nth: usize, by: u32| -> String {
        s.chars().enumerate().map(|(i, c)| if i == nth { char::from_u32(c as u32 + by).unwrap_or('q') } else { c }).collect()
    };
    let nchars = password.chars().count();
    let mut wrong: Vec<String> = vec![
        shift(&password, 0, 256),
        shift(&password, 1, 256),
        shift(&password, nchars / 2, 256),
        shift(&password, nchars - 1, 256),
        shift(&password, nchars - 1, 65536),
        shift(&password, 1, 512),
        password.chars().filter(|c| c.is_ascii()).collect(),
        password.chars().map(|c| if c.is_ascii() { c } else { '?' }).collect(),
        password.chars().map(|c| (c as u32 as u8) as char).collect(),
    ];
    wrong.extend(vec![
        flip_last(&password, 0),
        flip_last(&password, 1),
        flip_last(&password, 5),
        flip_last(&password, password.len() / 2),
        flip_last(&password, password.len() - 1),
        password.to_lowercase(),
        password.to_uppercase(),
        format!("{} ", password),
        format!("{}\n", password),
        format!("{}\r\n", password),
        format!("{}\t", password),
        format!("\n{}", password),
        format!(" {}", password),
        String::new(),
        password[..password.len() - 1].to_string(),
        password.trim_end().to_string(),
        password[1..].to_string(),
        format!("{}\0", password),
        format!("{}x", password),
        "password".to_string(),
        password.replace('-', "_"),
    ]);
    // one scratch buffer, as a password prompt loop has: the right password is typed into it (and used), then a wrong
    // one of the same length lands in the very same bytes
    let mut scratch = String::with_capacity(password.len() + 64);
    for w in wrong {
        if w == password {
            continue;
        }
        let via_scratch = w.len() == password.len();
        if via_scratch {
            scratch.clear();
            scratch.push_str(&password);
            let _ = simcore::guarded(|| env.subj.load_encrypted_file(&path, &scratch));
            scratch.clear();
            scratch.push_str(&w);
        }
        let attempt: &str = if via_scratch { &scratch } else { &w };
        arm_cpu_watchdog(EVAL_CPU_SECONDS);
        let r = simcore::guarded(|| env.subj.load_encrypted_file(&path, attempt));
        arm_cpu_watchdog(0);
        ctx.stats.inc("evals");
        ctx.stats.inc("config.realfile-wrong-password");
        ctx.stats.inc("fired.wrong-password");
        ctx.stats.inc("evals_with_fault_fired");
        let (outcome, bad) = match r {
            Ok(Ok(_)) => ("ok", Some("accepted".to_string())),
            Ok(Err(_)) => ("err", None),
            Err(p) => ("panic", Some(format!("panic: {} at {}", p.msg, p.site()))),
        };
        ctx.stats.inc(&format!("outcome.{}", outcome));
        ctx.stats.sig(format!("realfile-wrong-password|{}|{}", base.subject, outcome));
        if let Some(b) = bad {
            ctx.viol_count += 1;
            ctx.stats.inc("violations_raw");
            let oracle = format!("C14.realfile-wrong-password.{}", outcome);
            if ctx.seen_sigs.insert(oracle.clone()) {
                let mut c = base.clone();
                c.config = "realfile-wrong-password".into();
                ctx.stats.violations.push(json!({
                    "job": ctx.job, "oracle": oracle, "detail": format!("wrong password {:?} (right one {:?}): {}", w, password, b),
                    "signature": {"oracle": oracle, "engine": "simio", "container": "encrypted-compressed(real file)", "wrappers": "crypto+bzip2", "fault_kind": "wrong-password", "region": "-", "site": "load_encrypted_file", "type_class": base.subject},
                    "case": c.to_json(), "log_hash": "-",
                }));
            }
        }
    }
    let _ = std::fs::remove_file(&path);
    Ok(())
}

fn enum_c06(ctx: &mut Ctx, seed: u64) -> Result<(), String> {
    let mut rng = Rng::new(seed);
    let mut base = gen::gen_base("C06", &mut rng, true, seed);
    base.load_key = base.key;
    let mut env = match prepare(&base) {
        Ok(e) => e,
        Err(e) => {
            ctx.intact_failed(&base, &e);
            return Err(e);
        }
    };
    let len = env.ref_bytes.len() as u64;
    let (points, ex) = cut_points(&env, &mut rng, if ctx.tier_thorough { 4096 } else { 1000 }, 256);
    ctx.count(if ex { "enum.files_exhaustive" } else { "enum.files_sampled" }, 1);
    for &p in &points {
        // single-bit flips, extreme values, and bytes that turn valid scalars into invalid ones (0xD8/0xDF: UTF-16
        // surrogates inside a char, 0x11: just above the last Unicode plane, 0x02: neither false nor true)
        for m in [MediaOp::Xor(p, 0x01), MediaOp::Xor(p, 0x80), MediaOp::Set(p, 0xff), MediaOp::Set(p, 0x00), MediaOp::Xor(p, 0x20), MediaOp::Set(p, 0xd8), MediaOp::Set(p, 0xdf), MediaOp::Set(p, 0x11), MediaOp::Set(p, 0x02), MediaOp::Cut(p)] {
            let mut c = base.clone();
            c.config = "media".into();
            c.media = vec![m];
            ctx.eval(&c, &mut env);
        }
    }
    let _ = len;
    // encrypted containers: a cut exactly at a chunk boundary is the one truncation the chunk framing itself cannot
    // notice (the layer above must)
    if base.container.encrypted() {
        let mut cuts: Vec<u64> = env.regions.iter().filter(|r| r.2.ends_with("-len")).map(|r| r.0).collect();
        cuts.truncate(400);
        ctx.count("enum.c06.chunk_boundary_cuts", cuts.len() as u64);
        for k in cuts {
            let mut c = base.clone();
            c.config = "media".into();
            c.media = vec![MediaOp::Cut(k)];
            ctx.eval(&c, &mut env);
        }
    }
    // every replacement value at the two low bytes of everything that looks like a 64-bit length / count field
    // (lengths, tags and discriminants are what C06's quantifier singles out)
    let lens = gen::length_like_positions(&env);
    ctx.count("enum.c06.length_like_fields", lens.len() as u64);
    for &p in lens.iter().take(if ctx.tier_thorough { 48 } else { 6 }) {
        for off in 0..2u64 {
            let orig = env.ref_bytes[(p + off) as usize];
            for v in 0..=255u8 {
                if v != orig {
                    let mut c = base.clone();
                    c.config = "media".into();
                    c.media = vec![MediaOp::Set(p + off, v)];
                    ctx.eval(&c, &mut env);
                }
            }
        }
    }
    Ok(())
}

/// C06 over the encrypted-plain container with small chunks: the deserializers sit directly on top of CryptoReader
/// (no decompressor in between to notice a short stream), so what CryptoReader reports at a chunk boundary - end of
/// stream, a short count - reaches the bulk read paths unfiltered. Cuts at every chunk boundary, and damage to every
/// chunk's length field.
fn enum_c06_enc(ctx: &mut Ctx, seed: u64) -> Result<(), String> {
    let mut rng = Rng::new(seed);
    let mut base = gen::gen_base("C06", &mut rng, false, seed);
    base.container = Container::EncPlain;
    base.sc = base.sc.min(3);
    base.bufsize = *rng.pick(&[17u64, 61, 64, 255, 1000, 4096]);
    base.load_key = base.key;
    if base.subject == "CryptoPipe" {
        base.subject = "PackedLast".into();
    }
    let mut env = match prepare(&base) {
        Ok(e) => e,
        Err(e) => {
            ctx.intact_failed(&base, &e);
            return Err(e);
        }
    };
    let mut starts: Vec<u64> = env.regions.iter().filter(|r| r.2.ends_with("-len")).map(|r| r.0).collect();
    if starts.len() > 300 {
        // keep the first, the last and a seeded sample of the rest
        let mut keep = vec![starts[0], starts[1], *starts.last().unwrap()];
        for _ in 0..297 {
            keep.push(*rng.pick(&starts));
        }
        keep.sort();
        keep.dedup();
        starts = keep;
    }
    ctx.count("enum.c06.enc_chunk_boundaries", starts.len() as u64);
    for &k in &starts {
        let mut c = base.clone();
        c.config = "media".into();
        c.media = vec![MediaOp::Cut(k)];
        ctx.eval(&c, &mut env);
        for m in [MediaOp::Xor(k, 0x01), MediaOp::Set(k, 0), MediaOp::Set(k + 1, 1), MediaOp::Set(k + 7, 0x80)] {
            let mut c = base.clone();
            c.config = "media".into();
            c.media = vec![m];
            ctx.eval(&c, &mut env);
        }
    }
    Ok(())
}

// ---------------------------------------------------------------------------------------------
fn run_job(ctx: &mut Ctx, prop: &str, seed: u64, i: u64) {
    let job_seed = mix(seed, &format!("simio-{}", prop), i);
    let selector = mix(seed, &format!("simio-sel-{}", prop), i) % 100;
    ctx.job = i;
    ctx.eval_idx = 0;
    ctx.count("jobs", 1);
    let r: Result<(), String> = match prop {
        "C08" => {
            if selector < 10 {
                enum_c08(ctx, job_seed)
            } else {
                single(ctx, prop, job_seed)
            }
        }
        "C07" => enum_c07(ctx, job_seed),
        "C14" => enum_c14(ctx, job_seed),
        "C06" => {
            if selector < 12 {
                enum_c06(ctx, job_seed)
            } else if selector < 16 {
                enum_c06_enc(ctx, job_seed)
            } else {
                single(ctx, prop, job_seed)
            }
        }
        _ => Err("unknown property".into()),
    };
    if let Err(e) = r {
        ctx.count("reference_failed", 1);
        ctx.stats.sample("reference_failed", || json!({"job": i, "seed": job_seed, "error": e}));
    }
}
fn single(ctx: &mut Ctx, prop: &str, job_seed: u64) -> Result<(), String> {
    let (case, mut env) = match gen::gen_single(prop, job_seed) {
        Ok(x) => x,
        Err(e) => {
            if prop == "C06" {
                // the same first draw as gen_single: the case whose fault-free reference run failed
                let mut base = gen::gen_base(prop, &mut Rng::new(job_seed), false, job_seed);
                base.load_key = base.key;
                ctx.intact_failed(&base, &e);
            }
            return Err(e);
        }
    };
    ctx.eval(&case, &mut env);
    Ok(())
}

/// Supervised execution (C06): the job loop runs in a forked child under an address-space limit and
/// streams one record per evaluation; an allocation failure (which aborts in Rust) ends the child, is
/// attributed to the evaluation in flight, and a new child resumes right after it.
fn supervise(ctx: &mut Ctx, prop: &str, seed: u64, from: u64, to: u64, stride: u64, deadline: Option<std::time::Instant>) -> u64 {
    use std::io::{BufRead, BufReader, Read};
    use std::os::unix::io::FromRawFd;
    let as_limit: u64 = 4 << 30;
    let mut next_job = from;
    let mut skip = 0u64;
    let mut restarts = 0u64;
    // the job whose BEGIN line has been written and whose END line has not (survives child restarts)
    let mut cur_job: Option<u64> = None;
    while next_job < to {
        if let Some(d) = deadline {
            if std::time::Instant::now() > d {
                break;
            }
        }
        let mut out_fds = [0i32; 2];
        let mut err_fds = [0i32; 2];
        unsafe {
            if libc::pipe(out_fds.as_mut_ptr()) != 0 || libc::pipe(err_fds.as_mut_ptr()) != 0 {
                ctx.stats.inc("harness_error");
                return next_job;
            }
        }
        let pid = unsafe { libc::fork() };
        if pid < 0 {
            ctx.stats.inc("harness_error");
            return next_job;
        }
        if pid == 0 {
            unsafe {
                libc::close(out_fds[0]);
                libc::close(err_fds[0]);
                libc::dup2(err_fds[1], 2);
                let lim = libc::rlimit { rlim_cur: as_limit, rlim_max: as_limit };
                libc::setrlimit(libc::RLIMIT_AS, &lim);
            }
            ctx.emit = Some(unsafe { std::fs::File::from_raw_fd(out_fds[1]) });
            ctx.skip = skip;
            let mut i = next_job;
            while i < to {
                {
                    use std::io::Write;
                    let _ = ctx.emit.as_mut().unwrap().write_all(format!("J {}\n", i).as_bytes());
                }
                run_job(ctx, prop, seed, i);
                ctx.skip = 0;
                i += stride;
                if let Some(d) = deadline {
                    if std::time::Instant::now() > d {
                        break;
                    }
                }
            }
            {
                use std::io::Write;
                let _ = ctx.emit.as_mut().unwrap().write_all(format!("DONE {}\n", i).as_bytes());
            }
            unsafe { libc::_exit(0) };
        }
        // supervisor
        let (o, mut e) = unsafe {
            libc::close(out_fds[1]);
            libc::close(err_fds[1]);
            (std::fs::File::from_raw_fd(out_fds[0]), std::fs::File::from_raw_fd(err_fds[0]))
        };
        let mut in_flight: Option<(u64, u64, Value)> = None; // (job, eval idx, case)
        let mut last_done_eval: Option<(u64, u64)> = None;
        let mut done_at: Option<u64> = None;
        let mut recycle = false;
        for line in BufReader::new(o).lines() {
            let line = match line {
                Ok(l) => l,
                Err(_) => break,
            };
            let (tag, rest) = match line.split_once(' ') {
                Some(x) => x,
                None => continue,
            };
            match tag {
                "J" => {
                    let j: u64 = rest.parse().unwrap_or(0);
                    if cur_job != Some(j) {
                        if let Some(pj) = cur_job {
                            ctx.journal.line(&format!("END {} {} {:016x}", pj, ctx.viol_count, ctx.job_hash));
                        }
                        ctx.job_hash = 0;
                        ctx.journal.line(&format!("BEGIN {}", j));
                    }
                    cur_job = Some(j);
                }
                "B" => {
                    let mut it = rest.splitn(3, ' ');
                    let j: u64 = it.next().and_then(|x| x.parse().ok()).unwrap_or(0);
                    let idx: u64 = it.next().and_then(|x| x.parse().ok()).unwrap_or(0);
                    let case: Value = it.next().and_then(|x| serde_json::from_str(x).ok()).unwrap_or(Value::Null);
                    in_flight = Some((j, idx, case));
                }
                "E" => {
                    if let Ok(v) = serde_json::from_str::<Value>(rest) {
                        let (j, idx) = in_flight.as_ref().map(|x| (x.0, x.1)).unwrap_or((cur_job.unwrap_or(0), 0));
                        let rec = AccountRec::from_json(&v, j);
                        ctx.account(&rec);
                        last_done_eval = Some((j, idx));
                    }
                    in_flight = None;
                }
                "C" => {
                    if let Some((n, key)) = rest.split_once(' ') {
                        ctx.stats.add(key, n.parse().unwrap_or(0));
                    }
                }
                "DONE" => {
                    done_at = rest.parse().ok();
                }
                "R" => {
                    recycle = true;
                }
                _ => {}
            }
        }
        let mut errb = Vec::new();
        let _ = e.read_to_end(&mut errb);
        let errs = String::from_utf8_lossy(&errb).to_string();
        let mut status = 0i32;
        unsafe {
            libc::waitpid(pid, &mut status, 0);
        }
        let _ = last_done_eval;
        if let Some(d) = done_at {
            if let Some(j) = cur_job {
                ctx.journal.line(&format!("END {} {} {:016x}", j, ctx.viol_count, ctx.job_hash));
            }
            return d;
        }
        if recycle {
            ctx.stats.inc("child_recycles");
            match last_done_eval {
                Some((j, idx)) => {
                    next_job = j;
                    skip = idx + 1;
                }
                None => return next_job,
            }
            continue;
        }
        // the child died
        restarts += 1;
        ctx.stats.inc("child_restarts");
        let sig = if libc::WIFSIGNALED(status) { libc::WTERMSIG(status) } else { -libc::WEXITSTATUS(status) };
        match in_flight {
            Some((j, idx, casev)) => {
                let case = Case::from_json(&casev);
                // environment facts are not available here: recompute what the record needs from the case
                let (kind, _pos) = match case.media.first() {
                    Some(m) => (m.kind(), m.first_pos()),
                    None => ("none", 0),
                };
                let input_len = simcore::ju(&casev, "_image_len") as usize;
                let oom = is_oom_class(&errs, input_len.max(1 << 14));
                let summary = if oom {
                    EvalSummary { outcome: "oom-class(abort)".into(), fired: vec![kind.to_string()], probes: vec![], violation: None, log_hash: 0x00c1a55, steps: 0, note: String::new() }
                } else {
                    let cls = if errs.contains("memory allocation of") {
                        "small-allocation-failed".to_string()
                    } else if errs.contains("non-unwinding panic") || errs.contains("panic in a destructor") {
                        "double-panic-abort".to_string()
                    } else {
                        format!("signal-{}", sig)
                    };
                    EvalSummary {
                        outcome: "abort".into(),
                        fired: vec![kind.to_string()],
                        probes: vec![],
                        violation: Some(Violation {
                            oracle: format!("{}.{}.abort", case.prop, case.config),
                            detail: format!("the process died (signal {}) while loading the damaged image: {}", sig, errs.trim().chars().take(300).collect::<String>()),
                            fault_kind: kind.to_string(),
                            region: "-".into(),
                            site: cls,
                        }),
                        log_hash: 0x0ab0,
                        steps: 0,
                        note: String::new(),
                    }
                };
                let rec = AccountRec {
                    job: j,
                    case: casev.clone(),
                    config: case.config.clone(),
                    container: case.container.name().to_string(),
                    wrappers: case.container.wrappers().to_string(),
                    subject: case.subject.clone(),
                    bufsize: case.bufsize,
                    encrypted: case.container.encrypted(),
                    multi_chunk: false,
                    sig_region: "-".into(),
                    summary,
                };
                ctx.account(&rec);
                next_job = j;
                skip = idx + 1;
            }
            None => {
                // died outside any evaluation (e.g. while generating a value): give the job up
                ctx.stats.inc("child_died_outside_eval");
                ctx.stats.sample("child_died_outside_eval", || json!({"job": cur_job, "stderr": errs.chars().take(300).collect::<String>(), "signal": sig}));
                match cur_job {
                    Some(j) => {
                        next_job = j + stride;
                        skip = 0;
                    }
                    None => return next_job,
                }
            }
        }
        if restarts > 200_000 {
            break;
        }
    }
    next_job
}

fn main() {
    let args: Vec<String> = std::env::args().collect();
    if std::env::var("SIM_LOUD").is_err() { simcore::install_silent_panic_hook(); }
    let cmd = args.get(1).map(|s| s.as_str()).unwrap_or("");
    match cmd {
        "run" => {
            let prop = arg(&args, "--prop").expect("--prop");
            let seed: u64 = arg(&args, "--seed").and_then(|s| s.parse().ok()).unwrap_or(simcore::DEFAULT_SEED);
            let from: u64 = arg(&args, "--from").and_then(|s| s.parse().ok()).unwrap_or(0);
            let to: u64 = arg(&args, "--to").and_then(|s| s.parse().ok()).unwrap_or(1);
            let stride: u64 = arg(&args, "--stride").and_then(|s| s.parse().ok()).unwrap_or(1);
            let tier = arg(&args, "--tier").unwrap_or_else(|| "quick".into());
            let deadline: Option<std::time::Instant> = arg(&args, "--max-seconds").and_then(|s| s.parse::<u64>().ok()).map(|s| std::time::Instant::now() + std::time::Duration::from_secs(s));
            let journal = arg(&args, "--journal");
            let mut ctx = Ctx {
                stats: Stats::new(),
                journal: Journal::open(journal.as_deref()),
                trace: flag(&args, "--trace"),
                tier_thorough: tier == "thorough",
                job: 0,
                seen_sigs: Default::default(),
                viol_count: 0,
                emit: None,
                skip: 0,
                eval_idx: 0,
                job_hash: 0,
            };
            let supervised = prop == "C06" && !flag(&args, "--no-fork") && !ctx.trace;
            ctx.stats.max_samples = 12;
            if ctx.trace {
                if let Some(j) = &journal {
                    simcore::set_trace_file(j);
                }
            }
            let mut i = from;
            let mut completed_to = from;
            if supervised {
                completed_to = supervise(&mut ctx, &prop, seed, from, to, stride, deadline);
                i = to;
            }
            while i < to {
                ctx.journal.line(&format!("BEGIN {}", i));
                ctx.job_hash = 0;
                let t0 = std::time::Instant::now();
                let e0 = ctx.stats.counters.get("evals").copied().unwrap_or(0);
                run_job(&mut ctx, &prop, seed, i);
                ctx.journal.line(&format!("END {} {} {:016x}", i, ctx.viol_count, ctx.job_hash));
                if std::env::var("SIM_SLOW").is_ok() && t0.elapsed().as_millis() > 1500 {
                    eprintln!("slow job {}: {} ms, {} evals", i, t0.elapsed().as_millis(), ctx.stats.counters.get("evals").copied().unwrap_or(0) - e0);
                }
                i += stride;
                completed_to = i;
                // the wall clock bounds the batch only; it never influences any simulated decision
                if let Some(d) = deadline {
                    if std::time::Instant::now() > d {
                        break;
                    }
                }
            }
            let mut out = ctx.stats.to_json();
            out["completed_to"] = json!(completed_to);
            out["from"] = json!(from);
            out["stride"] = json!(stride);
            let s = serde_json::to_string(&out).unwrap();
            match arg(&args, "--out") {
                Some(p) => std::fs::write(p, s).expect("write out"),
                None => println!("{}", s),
            }
            ctx.journal.line("DONE");
        }
        "replay" => {
            let path = args.get(2).expect("file");
            let v: Value = serde_json::from_str(&std::fs::read_to_string(path).expect("read")).expect("json");
            let cv = if v.get("case").is_some() { v["case"].clone() } else { v.clone() };
            let case = Case::from_json(&cv);
            if case.config.starts_with("realfile-truncate") || case.config.starts_with("realfile-full-disk") {
                match if case.config.starts_with("realfile-full-disk") { exec_realfile_full(&case) } else { exec_realfile(&case) } {
                    Ok((Some((oracle, detail)), outcome)) => {
                        println!("{}", json!({"verdict": "violation", "oracle": oracle, "detail": detail, "outcome": outcome, "log_hash": "-"}));
                        std::process::exit(1);
                    }
                    Ok((None, outcome)) => {
                        println!("{}", json!({"verdict": "ok", "outcome": outcome, "log_hash": "-"}));
                        std::process::exit(0);
                    }
                    Err(e) => {
                        println!("{}", json!({"verdict": "harness-error", "error": e}));
                        std::process::exit(2);
                    }
                }
            }
            arm_cpu_watchdog(EVAL_CPU_SECONDS);
            if case.config == "intact" {
                match prepare(&case) {
                    Err(e) if e.contains("panicked") => {
                        println!("{}", json!({"verdict": "violation", "oracle": "C06.intact.panic", "detail": e, "outcome": "panic", "log_hash": "-"}));
                        std::process::exit(1);
                    }
                    _ => {
                        println!("{}", json!({"verdict": "ok", "outcome": "ok", "log_hash": "-"}));
                        std::process::exit(0);
                    }
                }
            }
            let res: Result<EvalSummary, String> = if case.prop == "C06" && !flag(&args, "--no-fork") {
                prepare(&case).and_then(|mut env| forked_summary(&case, &mut env, 6 << 30))
            } else {
                exec(&case).map(|o| EvalSummary::from_exec(&o))
            };
            match res {
                Ok(out) => {
                    let hash = format!("{:016x}", out.log_hash);
                    match out.violation {
                        Some(vi) => {
                            println!("{}", json!({"verdict": "violation", "oracle": vi.oracle, "detail": vi.detail, "signature": vi.signature(&case), "outcome": out.outcome, "log_hash": hash}));
                            std::process::exit(1);
                        }
                        None => {
                            println!("{}", json!({"verdict": "ok", "outcome": out.outcome, "fired": out.fired, "log_hash": hash, "note": out.note}));
                            std::process::exit(0);
                        }
                    }
                }
                Err(e) => {
                    println!("{}", json!({"verdict": "reference-failed", "error": e}));
                    std::process::exit(3);
                }
            }
        }
        "miri-plans" => {
            // native half of the Miri pass for C06: generate damaged-image plans over the two pure-Rust containers,
            // execute each natively, and keep those Miri can execute (no native violation - those are reported by the
            // native check already - and no allocation request beyond a few MiB, which Miri could not survive)
            let seed: u64 = arg(&args, "--seed").and_then(|s| s.parse().ok()).unwrap_or(simcore::DEFAULT_SEED);
            let bases: u64 = arg(&args, "--bases").and_then(|s| s.parse().ok()).unwrap_or(16);
            let per: u64 = arg(&args, "--per").and_then(|s| s.parse().ok()).unwrap_or(8);
            let out = arg(&args, "--out").expect("--out");
            let mut lines = String::new();
            let (mut kept, mut big, mut viol, mut failed, mut ffi) = (0u64, 0u64, 0u64, 0u64, 0u64);
            for i in 0..bases {
                let js = mix(seed, "simio-miri-C06", i);
                let mut rng = Rng::new(js);
                let mut base = gen::gen_base("C06", &mut rng, true, js);
                base.container = if i % 2 == 0 { Container::Plain } else { Container::NoSchema };
                base.load_key = base.key;
                base.write_buffer = 0;
                let mut env = match prepare(&base) {
                    Ok(e) => e,
                    Err(_) => {
                        failed += 1;
                        continue;
                    }
                };
                if env.ref_bytes.len() > 2500 {
                    failed += 1;
                    continue;
                }
                let lens = gen::length_like_positions(&env);
                for k in 0..per {
                    let mut c = base.clone();
                    c.config = "media".into();
                    if k % 3 == 0 && !lens.is_empty() {
                        // an arbitrary value in the low bytes of something that looks like a length
                        let p = *rng.pick(&lens) + rng.below(2);
                        c.media.push(MediaOp::Set(p, rng.next_u64() as u8));
                    } else {
                        for _ in 0..(1 + rng.below(2)) {
                            c.media.push(gen::media_op(&mut rng, &env, &lens));
                        }
                    }
                    simalloc::MAX_REQ.store(0, std::sync::atomic::Ordering::Relaxed);
                    arm_cpu_watchdog(EVAL_CPU_SECONDS);
                    let r = exec_in(&c, &mut env);
                    arm_cpu_watchdog(0);
                    let maxreq = simalloc::MAX_REQ.load(std::sync::atomic::Ordering::Relaxed);
                    match r {
                        Ok(o) => {
                            if o.judged.violation.is_some() {
                                viol += 1;
                            } else if maxreq >= (4 << 20) {
                                big += 1;
                            } else if apply_media(&env.ref_bytes, &env.gen2_bytes, &c.media).get(15).copied().unwrap_or(0) != 0 {
                                // the damage switched the compression flag on: the load goes through libbz2 (C code),
                                // which Miri cannot execute
                                ffi += 1;
                            } else {
                                kept += 1;
                                lines.push_str(&format!("{}\n", json!({"case": c.to_json(), "native_outcome": o.judged.outcome, "native_log_hash": format!("{:016x}", o.log_hash)})));
                            }
                        }
                        Err(_) => failed += 1,
                    }
                }
            }
            std::fs::write(&out, lines).expect("write plans");
            println!("{}", json!({"kept": kept, "skipped_big_allocation": big, "skipped_native_violation": viol, "skipped_failed": failed, "skipped_needs_libbz2": ffi}));
        }
        "miri-exec" => {
            // Miri half: execute plans [from, to) of the file; undefined behaviour ends the interpreter with a report
            // (the line "PLAN <n>" printed last on stderr names the plan); a clean pass prints a summary
            let path = args.get(2).expect("file");
            let from: usize = arg(&args, "--from").and_then(|s| s.parse().ok()).unwrap_or(0);
            let to: usize = arg(&args, "--to").and_then(|s| s.parse().ok()).unwrap_or(usize::MAX);
            let text = std::fs::read_to_string(path).expect("read plans");
            let (mut evals, mut diverged) = (0u64, 0u64);
            let mut outcomes = std::collections::BTreeMap::<String, u64>::new();
            for (n, line) in text.lines().enumerate() {
                if n < from || n >= to {
                    continue;
                }
                let v: Value = serde_json::from_str(line).expect("json");
                let case = Case::from_json(&v["case"]);
                eprintln!("PLAN {}", n);
                match exec(&case) {
                    Ok(o) => {
                        evals += 1;
                        *outcomes.entry(o.judged.outcome.to_string()).or_insert(0) += 1;
                        if let Some(vi) = &o.judged.violation {
                            println!("{}", json!({"plan": n, "verdict": "violation", "oracle": vi.oracle, "detail": vi.detail}));
                        }
                        if format!("{:016x}", o.log_hash) != v["native_log_hash"].as_str().unwrap_or("") {
                            diverged += 1;
                        }
                    }
                    Err(e) => {
                        eprintln!("reference failed for plan {}: {}", n, e);
                        diverged += 1;
                    }
                }
            }
            println!("{}", json!({"summary": true, "evals": evals, "diverged_from_native": diverged, "outcomes": outcomes}));
        }
        "facts" => {
            let facts: Vec<Value> = packed_facts().iter().map(|(n, y)| json!({"type": n, "bulk_path": y})).collect();
            println!("{}", json!({"packed": facts, "subjects": subjects().iter().map(|s| s.name()).collect::<Vec<_>>()}));
        }
        _ => {
            eprintln!("usage: simio run|replay|facts ...");
            std::process::exit(2);
        }
    }
}
