//! Seeded generation of jobs. Everything random is decided HERE, before execution, and turned into
//! explicit plans; execution (cases.rs) never draws from a PRNG.
use crate::cases::*;
use crate::device::*;
use crate::zoo::*;
use simcore::Rng;

pub const BUFSIZES: [u64; 8] = [100_000, 61, 17, 64, 255, 1000, 4096, 100_000];

pub fn gen_base(prop: &str, rng: &mut Rng, small_only: bool, seed: u64) -> Case {
    let subs = subjects();
    let mut subject = subs[rng.below(subs.len() as u64) as usize].name().to_string();
    if subject == "CryptoPipe" && prop != "C08" {
        // the raw pipe has no length framing: only C08's chunking / fault clauses apply to it
        subject = "RecSmall".to_string();
    }
    let container = match prop {
        "C14" => {
            if rng.chance(1, 2) {
                Container::EncPlain
            } else {
                Container::EncCompressed
            }
        }
        // media corruption of plaintext containers is where untrusted lengths reach the deserializers;
        // the framed containers mostly stop it at the CRC / AEAD tag
        "C06" => match rng.below(10) {
            0..=3 => Container::Plain,
            4..=7 => Container::NoSchema,
            8 => Container::Compressed,
            _ => {
                if rng.chance(1, 2) {
                    Container::EncPlain
                } else {
                    Container::EncCompressed
                }
            }
        },
        _ => Container::ALL[rng.below(5) as usize],
    };
    // the raw CryptoWriter/CryptoReader pipe only exists in encrypted-plain form
    let container = if subject == "CryptoPipe" { Container::EncPlain } else { container };
    let bufsize = *rng.pick(&BUFSIZES);
    let mut sc = match rng.below(100) {
        0..=9 => 0,
        10..=24 => 1,
        25..=69 => 2,
        70..=94 => 3,
        _ => 4,
    };
    if small_only && sc > 2 {
        sc = 2;
    }
    if prop == "C08" && container.compressed() && !small_only && sc == 3 && rng.chance(1, 3) {
        // compressed output larger than the encoder's own 32 KiB buffer needs a big incompressible value
        sc = 4;
    }
    // "big": straddle one, exactly one and two crypto chunks of the chosen chunk size
    let hint = if sc == 4 {
        let b = bufsize.min(100_000);
        let target = match rng.below(6) {
            0 => b.saturating_sub(30),
            1 => b,
            2 => b + 9,
            3 => (2 * b).saturating_sub(20),
            4 => 2 * b + 40,
            _ => 3 * b + rng.below(64),
        };
        target.max(64)
    } else {
        rng.range(0, 64)
    };
    Case {
        prop: prop.to_string(),
        config: String::new(),
        subject,
        sc,
        hint,
        gen_seed: rng.next_u64() >> 8,
        container,
        bufsize,
        // now and then a nonce whose 32-bit chunk counter wraps inside the file
        nonce: (rng.next_u64() >> 1, if rng.chance(1, 8) { u32::MAX - rng.below(4) as u32 } else { rng.next_u64() as u32 }),
        key: rng.range(1, 250) as u8,
        load_key: 0,
        wplan: IoPlan::default(),
        rplan: IoPlan::default(),
        media: Vec::new(),
        seed,
        write_buffer: if prop == "C08" && rng.chance(1, 3) { *rng.pick(&[8u64, 64, 512, 8192]) } else { 0 },
    }
}

fn benign_act(rng: &mut Rng, shorts: bool, eintrs: bool) -> Act {
    match rng.below(10) {
        0..=3 if shorts => match rng.below(4) {
            0 => Act::Short(1),
            1 => Act::Short(rng.range(2, 9) as usize),
            2 => Act::Short(rng.range(1, 64) as usize),
            _ => Act::Short(rng.range(1, 5000) as usize),
        },
        4..=5 if eintrs => Act::Eintr,
        _ => Act::Full,
    }
}
/// benign noise, swarm style: each run enables its own subset of kinds and its own density
pub fn benign_plan(rng: &mut Rng, env: &Env, ref_calls: u64, allow_none: bool) -> IoPlan {
    let mut p = IoPlan::default();
    let style = rng.below(if allow_none { 8 } else { 7 });
    let shorts = rng.chance(3, 4);
    let eintrs = rng.chance(3, 4) || !shorts;
    match style {
        0 => p.pattern = vec![Act::Short(1)], // everything one byte at a time
        1 => p.pattern = vec![Act::Short(1), Act::Eintr], // every second call interrupted
        2 => p.pattern = vec![Act::Eintr, Act::Eintr, Act::Short(rng.range(1, 7) as usize)],
        3 | 4 => {
            let n = rng.range(1, 9);
            p.pattern = (0..n).map(|_| benign_act(rng, shorts, eintrs)).collect();
        }
        5 | 6 => {
            // sparse: a few events at chosen calls / offsets
            let n = rng.range(1, 5);
            for _ in 0..n {
                let a = if rng.chance(1, 2) { Act::Eintr } else { Act::Short(rng.range(1, 9) as usize) };
                if rng.chance(1, 2) {
                    p.overrides.push((rng.below(ref_calls.max(1) + 2), a));
                } else {
                    p.at_offset.push((place_offset(rng, env), a));
                }
            }
        }
        _ => {}
    }
    p
}
/// place a fault: half the time within 9 bytes of a structural boundary, else uniform
pub fn place_offset(rng: &mut Rng, env: &Env) -> u64 {
    let len = env.ref_bytes.len() as u64;
    if rng.chance(1, 2) {
        let b = boundaries(env);
        if !b.is_empty() {
            let x = *rng.pick(&b);
            let d = rng.below(10);
            return if rng.chance(1, 3) { x.saturating_sub(d) } else { (x + d).min(len + 2) };
        }
    }
    rng.below(len + 3)
}
fn hard_act(rng: &mut Rng, writer: bool) -> Act {
    let kind = *rng.pick(&ErrKind::ALL);
    match rng.below(10) {
        0 => Act::Zero(false),
        1 => Act::Zero(true),
        2..=5 => Act::Err(kind, true),
        _ => {
            if writer || rng.chance(1, 2) {
                Act::Err(kind, false)
            } else {
                Act::Err(kind, true)
            }
        }
    }
}
pub fn hard_write_plan(rng: &mut Rng, env: &Env) -> IoPlan {
    let mut p = if rng.chance(1, 2) { benign_plan(rng, env, env.ref_write_calls, true) } else { IoPlan::default() };
    if rng.chance(1, 4) {
        // a burst: 2-3 consecutive calls fail transiently, then the device recovers (a retry that "works the second
        // time" must not leave wrappers in a state from which they never return)
        let start = rng.below(env.ref_write_calls + 2);
        let kind = *rng.pick(&ErrKind::ALL);
        for i in 0..rng.range(2, 3) {
            p.overrides.push((start + i, Act::Err(kind, false)));
        }
        return p;
    }
    let n = if rng.chance(3, 4) { 1 } else { 2 };
    for _ in 0..n {
        match rng.below(10) {
            0..=5 => p.at_offset.push((place_offset(rng, env), hard_act(rng, true))),
            6..=7 => p.overrides.push((rng.below(env.ref_write_calls + 2), hard_act(rng, true))),
            _ => {
                let kind = *rng.pick(&ErrKind::ALL);
                p.flush_overrides.push((rng.below(8), Act::Err(kind, rng.chance(1, 2))));
            }
        }
    }
    p
}
pub fn hard_read_plan(rng: &mut Rng, env: &Env) -> IoPlan {
    let mut p = if rng.chance(1, 2) { benign_plan(rng, env, env.ref_read_calls, true) } else { IoPlan::default() };
    let n = if rng.chance(3, 4) { 1 } else { 2 };
    for _ in 0..n {
        if rng.chance(2, 3) {
            p.at_offset.push((place_offset(rng, env), hard_act(rng, false)));
        } else {
            p.overrides.push((rng.below(env.ref_read_calls + 2), hard_act(rng, false)));
        }
    }
    p
}

/// positions that look like 64-bit length prefixes in an uncompressed, unencrypted payload
pub fn length_like_positions(env: &Env) -> Vec<u64> {
    let b = &env.ref_bytes;
    let mut v = Vec::new();
    if env.container.encrypted() || env.container.compressed() {
        return v;
    }
    let mut i = 16usize;
    while i + 8 <= b.len() {
        // a small 64-bit value; the top bit may carry a format flag (BitVec's byte count does)
        if b[i + 3..i + 7].iter().all(|x| *x == 0) && (b[i + 7] == 0 || b[i + 7] == 0x80) {
            v.push(i as u64);
        }
        i += 1;
    }
    v
}
pub fn media_op(rng: &mut Rng, env: &Env, lens: &[u64]) -> MediaOp {
    let len = env.ref_bytes.len() as u64;
    let pos = |rng: &mut Rng| -> u64 {
        if !lens.is_empty() && rng.chance(1, 2) {
            *rng.pick(lens) + rng.below(8)
        } else {
            place_offset(rng, env).min(len.saturating_sub(1))
        }
    };
    match rng.below(20) {
        0..=5 => MediaOp::Xor(pos(rng), 1u8 << rng.below(8)),
        6..=9 => MediaOp::Set(pos(rng), *rng.pick(&[0u8, 1, 2, 0x7f, 0x80, 0xff, 0xfe, 0x20, 0xd8, 0xdb, 0xdf, 0x11])),
        10 => MediaOp::Set(pos(rng), rng.next_u64() as u8),
        11 | 12 => MediaOp::Zero((pos(rng) / 64) * 64, 64),
        13 => MediaOp::Copy((rng.below(len.max(1)) / 64) * 64, (rng.below(len.max(1)) / 64) * 64, 64),
        14 => MediaOp::Drop(pos(rng), rng.range(1, 64)),
        15 => MediaOp::Dup(pos(rng), rng.range(1, 64)),
        16 => {
            let l = rng.range(1, 32);
            MediaOp::Swap(rng.below(len.max(1)), rng.below(len.max(1)), l)
        }
        17 | 18 => MediaOp::Gen2((pos(rng) / 64) * 64, 64 * rng.range(1, 4)),
        _ => MediaOp::Cut(pos(rng)),
    }
}

/// one random single case for `prop`
pub fn gen_single(prop: &str, seed: u64) -> Result<(Case, Env), String> {
    let mut rng = Rng::new(seed);
    let mut case = gen_base(prop, &mut rng, false, seed);
    case.load_key = case.key;
    let env = prepare(&case)?;
    match prop {
        "C08" => {
            match rng.below(100) {
                0..=24 => {
                    case.config = "benign-write".into();
                    case.wplan = benign_plan(&mut rng, &env, env.ref_write_calls, false);
                }
                25..=49 => {
                    case.config = "benign-read".into();
                    case.rplan = benign_plan(&mut rng, &env, env.ref_read_calls, false);
                }
                50..=74 => {
                    case.config = "hard-write".into();
                    case.wplan = hard_write_plan(&mut rng, &env);
                }
                75..=94 => {
                    case.config = "hard-read".into();
                    case.rplan = hard_read_plan(&mut rng, &env);
                }
                _ => {
                    case.config = "flush-eintr".into();
                    case.wplan = if rng.chance(1, 2) { benign_plan(&mut rng, &env, env.ref_write_calls, true) } else { IoPlan::default() };
                    case.wplan.flush_overrides.push((rng.below(6), Act::Eintr));
                }
            }
        }
        "C06" => {
            case.config = "media".into();
            let lens = length_like_positions(&env);
            let n = match rng.below(10) {
                0..=5 => 1,
                6..=8 => 2,
                _ => 3,
            };
            for _ in 0..n {
                case.media.push(media_op(&mut rng, &env, &lens));
            }
            if rng.chance(1, 3) {
                case.rplan = benign_plan(&mut rng, &env, env.ref_read_calls, true);
            }
        }
        _ => return Err(format!("no single-case generator for {}", prop)),
    }
    Ok((case, env))
}
