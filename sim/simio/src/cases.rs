//! Cases (explicit, replayable), media faults, execution and the oracles of C06, C07, C08, C14.
use crate::device::*;
use crate::zoo::*;
use serde_json::{json, Value};
use savefile::SavefileError;
use simcore::{guarded, Fnv, PanicInfo, Rng};

// ---------------------------------------------------------------------------------------------
// media faults: what the storage medium did to a valid file before it is read back
// ---------------------------------------------------------------------------------------------
#[derive(Clone, Debug, PartialEq)]
pub enum MediaOp {
    /// keep only the first k bytes
    Cut(u64),
    /// replace byte p by v
    Set(u64, u8),
    /// xor byte p with mask
    Xor(u64, u8),
    /// zero len bytes from p (a lost sector)
    Zero(u64, u64),
    /// copy len bytes from src over dst (misdirected / duplicated sector write)
    Copy(u64, u64, u64),
    /// remove len bytes at p (a dropped chunk)
    Drop(u64, u64),
    /// duplicate len bytes at p (insert the copy right after)
    Dup(u64, u64),
    /// swap two non-overlapping ranges of the same length
    Swap(u64, u64, u64),
    /// replace [p, p+len) by the same range of the *other generation* of this file
    /// (same subject, next value, same parameters): a torn write mixing two generations
    Gen2(u64, u64),
    /// append n bytes of 0xA5 garbage
    Append(u64),
}
impl MediaOp {
    pub fn to_json(&self) -> Value {
        match self {
            MediaOp::Cut(k) => json!(["cut", k]),
            MediaOp::Set(p, v) => json!(["set", p, v]),
            MediaOp::Xor(p, m) => json!(["xor", p, m]),
            MediaOp::Zero(p, l) => json!(["zero", p, l]),
            MediaOp::Copy(s, d, l) => json!(["copy", s, d, l]),
            MediaOp::Drop(p, l) => json!(["drop", p, l]),
            MediaOp::Dup(p, l) => json!(["dup", p, l]),
            MediaOp::Swap(a, b, l) => json!(["swap", a, b, l]),
            MediaOp::Gen2(p, l) => json!(["gen2", p, l]),
            MediaOp::Append(n) => json!(["append", n]),
        }
    }
    pub fn from_json(v: &Value) -> Option<MediaOp> {
        let a = v.as_array()?;
        let n = |i: usize| a.get(i).and_then(|x| x.as_u64()).unwrap_or(0);
        Some(match a.first()?.as_str()? {
            "cut" => MediaOp::Cut(n(1)),
            "set" => MediaOp::Set(n(1), n(2) as u8),
            "xor" => MediaOp::Xor(n(1), n(2) as u8),
            "zero" => MediaOp::Zero(n(1), n(2)),
            "copy" => MediaOp::Copy(n(1), n(2), n(3)),
            "drop" => MediaOp::Drop(n(1), n(2)),
            "dup" => MediaOp::Dup(n(1), n(2)),
            "swap" => MediaOp::Swap(n(1), n(2), n(3)),
            "gen2" => MediaOp::Gen2(n(1), n(2)),
            "append" => MediaOp::Append(n(1)),
            _ => return None,
        })
    }
    pub fn kind(&self) -> &'static str {
        match self {
            MediaOp::Cut(_) => "cut",
            MediaOp::Set(..) => "byte-replace",
            MediaOp::Xor(..) => "bit-flip",
            MediaOp::Zero(..) => "zero-sector",
            MediaOp::Copy(..) => "misdirected-sector",
            MediaOp::Drop(..) => "drop-range",
            MediaOp::Dup(..) => "dup-range",
            MediaOp::Swap(..) => "swap-ranges",
            MediaOp::Gen2(..) => "torn-generations",
            MediaOp::Append(_) => "append-garbage",
        }
    }
    pub fn first_pos(&self) -> u64 {
        match self {
            MediaOp::Cut(k) => *k,
            MediaOp::Set(p, _) | MediaOp::Xor(p, _) | MediaOp::Zero(p, _) | MediaOp::Drop(p, _) | MediaOp::Dup(p, _) => *p,
            MediaOp::Copy(_, d, _) => *d,
            MediaOp::Swap(a, b, _) => (*a).min(*b),
            MediaOp::Gen2(p, _) => *p,
            MediaOp::Append(_) => u64::MAX,
        }
    }
}
/// Apply media ops; every op is total (out-of-range parts are clipped) so that shrinking never breaks.
pub fn apply_media(orig: &[u8], gen2: &[u8], ops: &[MediaOp]) -> Vec<u8> {
    let mut b = orig.to_vec();
    for op in ops {
        let len = b.len() as u64;
        match *op {
            MediaOp::Cut(k) => b.truncate(k.min(len) as usize),
            MediaOp::Set(p, v) => {
                if p < len {
                    b[p as usize] = v;
                }
            }
            MediaOp::Xor(p, m) => {
                if p < len {
                    b[p as usize] ^= m;
                }
            }
            MediaOp::Zero(p, l) => {
                let e = p.saturating_add(l).min(len);
                for i in p.min(len)..e {
                    b[i as usize] = 0;
                }
            }
            MediaOp::Copy(s, d, l) => {
                if s < len && d < len {
                    let l = l.min(len - s).min(len - d) as usize;
                    let tmp = b[s as usize..s as usize + l].to_vec();
                    b[d as usize..d as usize + l].copy_from_slice(&tmp);
                }
            }
            MediaOp::Drop(p, l) => {
                if p < len {
                    let e = p.saturating_add(l).min(len);
                    b.drain(p as usize..e as usize);
                }
            }
            MediaOp::Dup(p, l) => {
                if p < len {
                    let e = p.saturating_add(l).min(len);
                    let tmp = b[p as usize..e as usize].to_vec();
                    let at = e as usize;
                    b.splice(at..at, tmp);
                }
            }
            MediaOp::Swap(a0, b0, l) => {
                let (x, y) = (a0.min(b0), a0.max(b0));
                if y < len && x.saturating_add(l) <= y {
                    let l = l.min(len - y) as usize;
                    for i in 0..l {
                        b.swap(x as usize + i, y as usize + i);
                    }
                }
            }
            MediaOp::Gen2(p, l) => {
                let e = p.saturating_add(l).min(len).min(gen2.len() as u64);
                for i in p.min(e)..e {
                    b[i as usize] = gen2[i as usize];
                }
            }
            MediaOp::Append(n) => {
                let n = n.min(4096) as usize;
                b.extend(std::iter::repeat(0xA5u8).take(n));
            }
        }
    }
    b
}

// ---------------------------------------------------------------------------------------------
// Case: one explicit, replayable simulated execution
// ---------------------------------------------------------------------------------------------
#[derive(Clone, Debug)]
pub struct Case {
    pub prop: String,
    pub config: String,
    pub subject: String,
    pub sc: u8,
    pub hint: u64,
    pub gen_seed: u64,
    pub container: Container,
    pub bufsize: u64,
    pub nonce: (u64, u32),
    pub key: u8,
    pub load_key: u8,
    pub wplan: IoPlan,
    pub rplan: IoPlan,
    pub media: Vec<MediaOp>,
    pub seed: u64,
    /// 0 = the code under test writes straight to the device; n > 0 = through a std::io::BufWriter of capacity n
    /// that is dropped afterwards (what save_file / save_file_compressed do): bytes count as accepted only once the
    /// buffer has been flushed, and an error while the buffer is dropped is swallowed by std
    pub write_buffer: u64,
}
impl Case {
    pub fn to_json(&self) -> Value {
        json!({
            "prop": self.prop, "config": self.config,
            "subject": {"type": self.subject, "size_class": self.sc, "hint": self.hint, "gen_seed": self.gen_seed},
            "container": self.container.name(),
            "crypto_bufsize": self.bufsize, "nonce": [self.nonce.0, self.nonce.1],
            "key": self.key, "load_key": self.load_key, "write_buffer": self.write_buffer,
            "plan": {
                "write": self.wplan.to_json(),
                "read": self.rplan.to_json(),
                "media": self.media.iter().map(|m| m.to_json()).collect::<Vec<_>>(),
            },
            "seed": self.seed,
        })
    }
    pub fn from_json(v: &Value) -> Case {
        let s = &v["subject"];
        let p = &v["plan"];
        Case {
            prop: simcore::js(v, "prop").to_string(),
            config: simcore::js(v, "config").to_string(),
            subject: simcore::js(s, "type").to_string(),
            sc: simcore::ju(s, "size_class") as u8,
            hint: simcore::ju(s, "hint"),
            gen_seed: simcore::ju(s, "gen_seed"),
            container: Container::from_name(simcore::js(v, "container")),
            bufsize: simcore::ju(v, "crypto_bufsize").max(1),
            nonce: (
                v["nonce"].get(0).and_then(|x| x.as_u64()).unwrap_or(1),
                v["nonce"].get(1).and_then(|x| x.as_u64()).unwrap_or(2) as u32,
            ),
            key: simcore::ju(v, "key") as u8,
            load_key: simcore::ju(v, "load_key") as u8,
            wplan: IoPlan::from_json(&p["write"]),
            rplan: IoPlan::from_json(&p["read"]),
            media: simcore::jarr(p, "media").iter().filter_map(MediaOp::from_json).collect(),
            seed: simcore::ju(v, "seed"),
            write_buffer: simcore::ju(v, "write_buffer"),
        }
    }
}

#[derive(Clone, Debug)]
pub struct Violation {
    pub oracle: String,
    pub detail: String,
    pub fault_kind: String,
    pub region: String,
    pub site: String,
}
impl Violation {
    pub fn signature(&self, case: &Case) -> Value {
        json!({
            "oracle": self.oracle, "engine": "simio", "container": case.container.name(),
            "wrappers": case.container.wrappers(), "fault_kind": self.fault_kind,
            "region": self.region, "site": self.site, "type_class": case.subject,
        })
    }
}

pub enum Res<T> {
    Ok(T),
    Err(String),
    Panic(PanicInfo),
}
impl<T> Res<T> {
    pub fn class(&self) -> &'static str {
        match self {
            Res::Ok(_) => "ok",
            Res::Err(_) => "err",
            Res::Panic(_) => "panic",
        }
    }
}

/// Everything the fault-free reference run of a (subject, value, container) established.
pub struct Env {
    pub subj: &'static dyn Subject,
    pub container: Container,
    pub key: [u8; 32],
    pub value: Val,
    pub ref_bytes: Vec<u8>,
    pub ref_bare: Vec<u8>,
    pub ref_write_calls: u64,
    pub ref_read_calls: u64,
    pub gen2_bytes: Vec<u8>,
    pub bufsize: u64,
    /// (start, end, label) sorted
    pub regions: Vec<(u64, u64, &'static str)>,
}

pub fn set_hooks(case: &Case) {
    WRITE_BUFFER.with(|c| c.set(case.write_buffer));
    savefile::verif_hooks::set_nonce_override(Some(case.nonce));
    savefile::verif_hooks::set_crypto_bufsize(Some(case.bufsize as usize));
}

fn err_string(e: &SavefileError) -> String {
    let s = format!("{:?}", e);
    if s.len() > 200 {
        let mut c = 200;
        while !s.is_char_boundary(c) {
            c -= 1;
        }
        s[..c].to_string()
    } else {
        s
    }
}

thread_local! {
    /// capacity of the BufWriter put between the code under test and the device (0 = none); set per case
    pub static WRITE_BUFFER: std::cell::Cell<u64> = const { std::cell::Cell::new(0) };
}
pub fn run_save(env: &Env, plan: IoPlan, budget: u64, force_progress: bool) -> (Res<()>, SimWriter) {
    let mut w = SimWriter::new(plan, budget, force_progress);
    let cap = WRITE_BUFFER.with(|c| c.get());
    let r = guarded(|| {
        if cap > 0 {
            let mut bw = std::io::BufWriter::with_capacity(cap as usize, &mut w);
            let r = env.subj.save(&env.value, &mut bw, env.container, env.key);
            drop(bw); // flushes what is left, discarding any error - exactly what happens to the *_file helpers
            r
        } else {
            env.subj.save(&env.value, &mut w, env.container, env.key)
        }
    });
    let res = match r {
        Ok(Ok(())) => Res::Ok(()),
        Ok(Err(e)) => Res::Err(err_string(&e)),
        Err(p) => Res::Panic(p),
    };
    (res, w)
}
pub struct LoadInfo {
    pub log: DevLog,
    pub max_request: usize,
    pub consumed: usize,
}
/// allocation requests of this size or more are refused by the simulated allocator during loads
pub const ALLOC_LIMIT: usize = 8 << 20;
pub fn run_load(env: &Env, bytes: &[u8], plan: IoPlan, budget: u64, force_progress: bool, key: [u8; 32]) -> (Res<Val>, LoadInfo) {
    let mut r = SimReader::new(bytes, plan, budget, force_progress);
    let mut slot = None;
    // anything the simulated allocator refuses is absurd by C06's own yardstick (>= 64 x input + 1 MiB)
    let limit = ALLOC_LIMIT.max(64 * bytes.len() + (1 << 20));
    let refused = crate::simalloc::with_alloc_limit(limit, || {
        slot = Some(guarded(|| env.subj.load(&mut r, env.container, key)));
    });
    let res = match (refused, slot) {
        (Some(n), _) => Res::Panic(PanicInfo {
            msg: format!("memory allocation of {} bytes failed (refused by the simulated allocator)", n),
            file: "simulated-allocator".into(),
            line: 0,
        }),
        (None, Some(Ok(Ok(v)))) => Res::Ok(v),
        (None, Some(Ok(Err(e)))) => Res::Err(err_string(&e)),
        (None, Some(Err(p))) => Res::Panic(p),
        (None, None) => Res::Err("harness: load did not run".into()),
    };
    let info = LoadInfo {
        max_request: r.max_request,
        consumed: r.pos,
        log: r.log,
    };
    (res, info)
}

pub fn compute_regions(container: Container, bytes: &[u8], bare_len: usize) -> Vec<(u64, u64, &'static str)> {
    let len = bytes.len() as u64;
    let mut v: Vec<(u64, u64, &'static str)> = Vec::new();
    match container {
        Container::Plain | Container::NoSchema => {
            v.push((0, 9, "magic"));
            v.push((9, 11, "libver"));
            v.push((11, 15, "dataver"));
            v.push((15, 16, "compress-flag"));
            let payload_start = len.saturating_sub(bare_len as u64).max(16);
            if payload_start > 16 {
                v.push((16, payload_start, "schema"));
            }
            v.push((payload_start, len, "payload"));
        }
        Container::Compressed => {
            v.push((0, 9, "magic"));
            v.push((9, 11, "libver"));
            v.push((11, 15, "dataver"));
            v.push((15, 16, "compress-flag"));
            let t = len.saturating_sub(13).max(16);
            v.push((16, t, "bz-stream"));
            v.push((t, len, "bz-trailer"));
        }
        Container::EncPlain | Container::EncCompressed => {
            v.push((0, 12, "nonce"));
            let mut p = 12u64;
            let mut idx = 0;
            while p + 8 <= len {
                let l = u64::from_le_bytes(bytes[p as usize..p as usize + 8].try_into().unwrap());
                let last = p + 8 + l >= len;
                v.push((p, p + 8, if idx == 0 { "chunk0-len" } else if last { "lastchunk-len" } else { "chunk-len" }));
                let body_end = (p + 8 + l.saturating_sub(16)).min(len);
                v.push((p + 8, body_end, if idx == 0 { "chunk0-body" } else if last { "lastchunk-body" } else { "chunk-body" }));
                let tag_end = (p + 8 + l).min(len);
                v.push((body_end, tag_end, if last { "lastchunk-tag" } else { "chunk-tag" }));
                p = tag_end;
                idx += 1;
                if idx > 100_000 {
                    break;
                }
            }
        }
    }
    v
}
pub fn region_of(env: &Env, pos: u64) -> &'static str {
    for (s, e, l) in &env.regions {
        if pos >= *s && pos < *e {
            return l;
        }
    }
    if pos >= env.ref_bytes.len() as u64 {
        "end"
    } else {
        "other"
    }
}
/// boundaries of all structural regions (used to place faults)
pub fn boundaries(env: &Env) -> Vec<u64> {
    let mut b: Vec<u64> = env.regions.iter().flat_map(|(s, e, _)| [*s, *e]).collect();
    b.sort();
    b.dedup();
    b
}

/// Build the environment: generate the value, do the fault-free save and load.
/// Err(String) = the reference run itself failed (not a verdict about a fault property).
pub fn prepare(case: &Case) -> Result<Env, String> {
    set_hooks(case);
    let subj = subject(&case.subject);
    let mut rng = Rng::new(case.gen_seed);
    let value = subj.gen(&mut rng, case.sc, case.hint as usize);
    let key = [case.key; 32];
    let mut env = Env {
        subj,
        container: case.container,
        key,
        value,
        ref_bytes: Vec::new(),
        ref_bare: Vec::new(),
        ref_write_calls: 0,
        ref_read_calls: 0,
        gen2_bytes: Vec::new(),
        bufsize: case.bufsize,
        regions: Vec::new(),
    };
    let (r, w) = run_save(&env, IoPlan::default(), u64::MAX, false);
    match r {
        Res::Ok(()) => {}
        Res::Err(e) => return Err(format!("reference save failed: {}", e)),
        Res::Panic(p) => return Err(format!("reference save panicked: {} at {}", p.msg, p.site())),
    }
    env.ref_write_calls = w.log.data_calls + w.log.flush_calls;
    env.ref_bytes = w.accepted;
    env.ref_bare = subj.bare(&env.value);
    let (r, info) = run_load(&env, &env.ref_bytes, IoPlan::default(), u64::MAX, false, key);
    match r {
        Res::Ok(v) => {
            if !subj.same(&v, &env.value) {
                return Err("reference load returned a different value (round-trip, not a fault property)".into());
            }
        }
        Res::Err(e) => return Err(format!("reference load failed: {}", e)),
        Res::Panic(p) => return Err(format!("reference load panicked: {} at {}", p.msg, p.site())),
    }
    env.ref_read_calls = info.log.data_calls;
    env.regions = compute_regions(case.container, &env.ref_bytes, env.ref_bare.len());
    Ok(env)
}
/// second generation of the same file (next value, same parameters), for torn-write faults
pub fn prepare_gen2(case: &Case, env: &mut Env) {
    if !env.gen2_bytes.is_empty() {
        return;
    }
    let mut c2 = case.clone();
    c2.gen_seed = case.gen_seed.wrapping_add(1);
    let mut rng = Rng::new(c2.gen_seed);
    let v2 = env.subj.gen(&mut rng, case.sc, case.hint as usize);
    let mut w = SimWriter::new(IoPlan::default(), u64::MAX, false);
    // a second generation of an encrypted file never shares the first one's random nonce
    savefile::verif_hooks::set_nonce_override(Some((case.nonce.0 ^ 0x5555_5555_5555_5555, case.nonce.1 ^ 0x2AAA_AAAA)));
    let _ = guarded(|| env.subj.save(&v2, &mut w, env.container, env.key));
    set_hooks(case);
    env.gen2_bytes = w.accepted;
}

pub fn write_budget(env: &Env) -> u64 {
    8 * env.ref_bytes.len() as u64 + 4 * env.ref_write_calls + 1000
}
pub fn read_budget(env: &Env, nbytes: usize) -> u64 {
    8 * nbytes as u64 + 4 * env.ref_read_calls + 1000
}

// ---------------------------------------------------------------------------------------------
// Oracles
// ---------------------------------------------------------------------------------------------
fn panic_site(p: &PanicInfo) -> String {
    let mut m: String = p.msg.chars().take(48).collect();
    m = m.replace(|c: char| c.is_ascii_digit(), "#");
    format!("{}:{}", p.site_file(), m)
}
/// Allocation-failure class of panic messages. C06 exempts *genuine* out-of-memory on absurd declared
/// lengths: the request must be absurd relative to the input (>= 64 x input length + 1 MiB), or be a
/// "capacity overflow" (> isize::MAX bytes, absurd by definition).
pub fn is_oom_class(msg: &str, input_len: usize) -> bool {
    if msg.contains("capacity overflow") {
        return true;
    }
    let pats = ["Failed to allocate ", "memory allocation of "];
    for pat in pats {
        if let Some(i) = msg.find(pat) {
            let digits: String = msg[i + pat.len()..].chars().take_while(|c| c.is_ascii_digit()).collect();
            if let Ok(n) = digits.parse::<u128>() {
                return n >= 64 * input_len as u128 + (1 << 20);
            }
        }
    }
    false
}

pub struct Judged {
    pub violation: Option<Violation>,
    /// what actually fired (for evidence counters)
    pub fired: Vec<String>,
    pub outcome: &'static str,
    pub probes: Vec<&'static str>,
}
fn viol(oracle: &str, detail: String, fault_kind: &str, region: &str, site: String) -> Option<Violation> {
    Some(Violation {
        oracle: oracle.to_string(),
        detail,
        fault_kind: fault_kind.to_string(),
        region: region.to_string(),
        site,
    })
}
fn fired_of(log: &DevLog) -> Vec<String> {
    let mut f = Vec::new();
    if log.shorts > 0 {
        f.push("short".to_string());
    }
    if log.eintrs > 0 {
        f.push("eintr".to_string());
    }
    if log.zeros > 0 {
        f.push("zero".to_string());
    }
    if log.hard_errors > 0 {
        f.push("hard-error".to_string());
    }
    if log.flush_errors > 0 {
        f.push("flush-error".to_string());
    }
    if log.flush_eintrs > 0 {
        f.push("flush-eintr".to_string());
    }
    f
}
fn first_benign_region(env: &Env, log: &DevLog) -> (&'static str, &'static str) {
    match log.benign_events.first() {
        Some((pos, k)) => (region_of(env, *pos), k),
        None => ("-", "none"),
    }
}

/// C08 write-side oracle. `mode`: "benign" | "hard" | "flush-eintr"
pub fn judge_save(env: &Env, prop: &str, mode: &str, res: &Res<()>, w: &SimWriter) -> Judged {
    let log = &w.log;
    let fired = fired_of(log);
    let hard_fired = log.first_hard_call.is_some();
    let kind = log.first_hard_kind.clone().unwrap_or_else(|| {
        if log.flush_eintrs > 0 {
            "flush-eintr".into()
        } else {
            first_benign_region(env, log).1.to_string()
        }
    });
    let region = match log.first_hard_pos {
        Some(p) => region_of(env, p),
        None => first_benign_region(env, log).0,
    };
    let o = |s: &str| format!("{}.{}-write.{}", prop, mode, s);
    let mut probes = Vec::new();
    if log.benign_events.iter().any(|(p, k)| *k == "eintr" && region_of(env, *p).ends_with("-len")) {
        probes.push("eintr_write_inside_chunk_header");
    }
    if hard_fired && env.container.compressed() {
        probes.push("write_fault_under_bzip2");
    }
    if hard_fired && env.container.encrypted() {
        probes.push("write_fault_under_crypto");
    }
    if log.calls_after_permanent > 0 {
        probes.push("write_call_after_permanent_error");
    }
    let outcome: &'static str;
    let mut violation = None;
    match res {
        Res::Panic(p) => {
            outcome = "panic";
            violation = viol(&o("panic"), format!("save panicked: {} at {}", p.msg, p.site()), &kind, region, panic_site(p));
        }
        _ if log.budget_exceeded => {
            outcome = "hang";
            violation = viol(
                &o("hang"),
                format!("device call budget exceeded after {} data calls ({} accepted bytes): retry loop does not terminate", log.data_calls, w.accepted.len()),
                &kind,
                region,
                "device-budget".into(),
            );
        }
        Res::Ok(()) => {
            outcome = "ok";
            let complete = w.accepted == env.ref_bytes;
            if hard_fired {
                // only a transient Ok(0) that the code retried successfully may end in Ok, and then the
                // bytes must be complete and identical
                let only_transient_zero = log.hard_errors == 0 && log.flush_errors == 0 && !kind.contains("perm") && log.zeros > 0;
                if !(only_transient_zero && complete) {
                    violation = viol(
                        &o("silent-success"),
                        format!("device delivered {} (at byte {}), yet save returned Ok; accepted {} of {} reference bytes", kind, log.first_hard_pos.unwrap_or(0), w.accepted.len(), env.ref_bytes.len()),
                        &kind,
                        region,
                        "save-returned-ok".into(),
                    );
                }
            } else if !complete {
                let d = w.accepted.iter().zip(env.ref_bytes.iter()).position(|(a, b)| a != b).unwrap_or(w.accepted.len().min(env.ref_bytes.len()));
                violation = viol(
                    &o("bytes-differ"),
                    format!("save returned Ok but accepted bytes differ from the fault-free run at offset {} (lens {} vs {})", d, w.accepted.len(), env.ref_bytes.len()),
                    &kind,
                    region_of(env, d as u64),
                    "bytes".into(),
                );
            }
        }
        Res::Err(e) => {
            outcome = "err";
            if !hard_fired {
                if mode == "flush-eintr" && log.flush_eintrs > 0 {
                    // std gives no retry contract for flush: an error is acceptable
                } else {
                    violation = viol(
                        &o("spurious-error"),
                        format!("no hard fault was delivered (shorts={}, eintrs={}) but save failed: {}", log.shorts, log.eintrs, e),
                        &kind,
                        region,
                        "save-returned-err".into(),
                    );
                }
            }
        }
    }
    // prefix rule (always checked; for benign runs the prefix is everything accepted)
    if violation.is_none() {
        // the first failure the code under test saw: a hard fault, or (flush has no retry contract) an interrupted flush
        let first_failure = match (w.accepted_at_first_hard, w.first_flush_eintr_at) {
            (Some(a), Some(b)) => Some(a.min(b)),
            (a, b) => a.or(b),
        };
        let upto = first_failure.unwrap_or(w.accepted.len()).min(w.accepted.len());
        let upto = if matches!(res, Res::Ok(())) { w.accepted.len() } else { upto };
        if upto > env.ref_bytes.len() || w.accepted[..upto] != env.ref_bytes[..upto] {
            violation = viol(
                &o("prefix"),
                format!("bytes accepted before the first failing call ({}) are not a prefix of the fault-free output ({} bytes)", upto, env.ref_bytes.len()),
                &kind,
                region,
                "bytes".into(),
            );
        }
    }
    Judged { violation, fired, outcome, probes }
}

/// Read-side oracle shared by C08 (benign / hard) and C07 (eof).
/// `expect`: "same" (must be Ok and equal), "err-if-fired" (hard fault fired => Err), "eof" (C07 rule)
pub fn judge_load(env: &Env, oracle_prefix: &str, res: &Res<Val>, info: &LoadInfo, fault_kind_hint: &str, region_hint: &str) -> Judged {
    let log = &info.log;
    let fired = fired_of(log);
    let hard_fired = log.first_hard_call.is_some();
    let kind = log.first_hard_kind.clone().unwrap_or_else(|| {
        if fault_kind_hint != "" {
            fault_kind_hint.to_string()
        } else {
            first_benign_region(env, log).1.to_string()
        }
    });
    let region = if region_hint != "" {
        region_hint
    } else {
        match log.first_hard_pos {
            Some(p) => region_of(env, p),
            None => first_benign_region(env, log).0,
        }
    };
    let o = |s: &str| format!("{}.{}", oracle_prefix, s);
    let mut probes = Vec::new();
    if log.benign_events.iter().any(|(p, k)| *k == "eintr" && { let r = region_of(env, *p); r.ends_with("-len") && (*p - region_start(env, *p)) > 0 }) {
        probes.push("eintr_inside_crypto_header");
    }
    if log.benign_events.iter().any(|(p, k)| *k == "short" && region_of(env, *p).ends_with("-len")) {
        probes.push("short_read_inside_crypto_header");
    }
    if hard_fired && env.container.compressed() {
        probes.push("read_fault_under_bzip2");
    }
    let outcome: &'static str;
    let mut violation = None;
    match res {
        Res::Panic(p) => {
            outcome = "panic";
            violation = viol(&o("panic"), format!("load panicked: {} at {}", p.msg, p.site()), &kind, region, panic_site(p));
        }
        _ if log.budget_exceeded => {
            outcome = "hang";
            violation = viol(&o("hang"), format!("device call budget exceeded after {} read calls", log.data_calls), &kind, region, "device-budget".into());
        }
        Res::Ok(v) => {
            outcome = "ok";
            let same = env.subj.same(v, &env.value);
            if hard_fired && kind != "eof" {
                violation = viol(
                    &o("value-despite-fault"),
                    format!("reader delivered {} at byte {} yet load returned a value ({})", kind, log.first_hard_pos.unwrap_or(0), if same { "equal to the original" } else { "DIFFERENT from the original" }),
                    &kind,
                    region,
                    "load-returned-ok".into(),
                );
            } else if !same {
                violation = viol(
                    &o("value-differs"),
                    format!("load returned a value different from the fault-free run: {}", env.subj.debug(v)),
                    &kind,
                    region,
                    "load-returned-ok".into(),
                );
            }
        }
        Res::Err(e) => {
            outcome = "err";
            if !hard_fired {
                violation = viol(
                    &o("spurious-error"),
                    format!("only benign reader behaviour (shorts={}, eintrs={}) but load failed: {}", log.shorts, log.eintrs, e),
                    &kind,
                    region,
                    "load-returned-err".into(),
                );
            }
        }
    }
    Judged { violation, fired, outcome, probes }
}
fn region_start(env: &Env, pos: u64) -> u64 {
    for (s, e, _) in &env.regions {
        if pos >= *s && pos < *e {
            return *s;
        }
    }
    pos
}

/// Oracle for loads of damaged / truncated images (C06, C07, C14).
/// mode: "c07" (Err, or Ok equal to original), "c14" (must be Err), "c06" (no panic, structural walk)
pub fn judge_damaged(env: &Env, prop: &str, sub: &str, mode: &str, res: &Res<Val>, info: &LoadInfo, image_len: usize, fault_kind: &str, region: &str) -> Judged {
    let o = |s: &str| format!("{}.{}.{}", prop, sub, s);
    let mut violation = None;
    let outcome: &'static str;
    let mut probes = Vec::new();
    match res {
        Res::Panic(p) => {
            if mode == "c06" && is_oom_class(&p.msg, image_len) {
                outcome = "oom-class";
            } else {
                outcome = "panic";
                violation = viol(&o("panic"), format!("load panicked: {} at {}", p.msg, p.site()), fault_kind, region, panic_site(p));
            }
        }
        _ if info.log.budget_exceeded => {
            outcome = "hang";
            violation = viol(&o("hang"), format!("device call budget exceeded after {} read calls", info.log.data_calls), fault_kind, region, "device-budget".into());
        }
        Res::Err(_) => {
            outcome = "err";
        }
        Res::Ok(v) => {
            outcome = "ok";
            match mode {
                "c07" => {
                    if !env.subj.same(v, &env.value) && env.subj.prefix_is_legitimate(v, &env.value) {
                        probes.push("unframed_pipe_cut_reads_as_prefix");
                    } else if !env.subj.same(v, &env.value) {
                        violation = viol(
                            &o("accepted-different"),
                            format!("a strict prefix ({} of {} bytes) loaded as a DIFFERENT value: {}", image_len, env.ref_bytes.len(), env.subj.debug(v)),
                            fault_kind,
                            region,
                            "load-returned-ok".into(),
                        );
                    } else {
                        probes.push("prefix_loaded_original_value");
                    }
                }
                "c14" => {
                    violation = viol(
                        &o("accepted"),
                        format!("damaged/foreign encrypted image was accepted and produced a value ({})", if env.subj.same(v, &env.value) { "equal to the original" } else { "different from the original" }),
                        fault_kind,
                        region,
                        "load-returned-ok".into(),
                    );
                }
                _ => {
                    // c06: structural walk
                    // what the input can have encoded: everything for the plain containers; for the encrypted-plain
                    // container only its plaintext (every chunk of at most `bufsize` plaintext bytes costs 24 bytes of
                    // framing, the file 12 bytes of nonce); unknown when a decompressor sits in between
                    let avail = if env.container.compressed() {
                        usize::MAX / 4
                    } else if env.container.encrypted() {
                        let b = env.bufsize.max(1) as u128;
                        ((image_len.saturating_sub(12) as u128) * b / (b + 24)) as usize
                    } else {
                        image_len
                    };
                    let mut w = Walker::new(avail);
                    let wr = guarded(|| { env.subj.walk(v, &mut w); w.check_total() });
                    if let Err(p) = wr {
                        violation = viol(&o("walk-panic"), format!("walking the returned value panicked: {} at {}", p.msg, p.site()), fault_kind, region, panic_site(&p));
                    } else if let Some(p) = w.problems.first() {
                        let class = p.split(':').next().unwrap_or("problem").to_string();
                        violation = viol(&o(&class), format!("returned value is not structurally sound: {}", p), fault_kind, region, class.clone());
                    }
                    if !env.subj.same(v, &env.value) {
                        probes.push("damaged_file_loaded_as_other_value");
                    }
                }
            }
        }
    }
    let mut fired = vec![fault_kind.to_string()];
    fired.extend(fired_of(&info.log));
    Judged { violation, fired, outcome, probes }
}

// ---------------------------------------------------------------------------------------------
// exec: run one explicit case; returns the judgement and the event-log hash
// ---------------------------------------------------------------------------------------------
pub struct ExecOut {
    pub judged: Judged,
    pub log_hash: u64,
    pub steps: u64,
    pub note: String,
}
/// wire form of an evaluation's result (crosses the pipe from a forked child)
#[derive(Clone, Debug)]
pub struct EvalSummary {
    pub outcome: String,
    pub fired: Vec<String>,
    pub probes: Vec<String>,
    pub violation: Option<Violation>,
    pub log_hash: u64,
    pub steps: u64,
    pub note: String,
}
impl EvalSummary {
    pub fn from_exec(o: &ExecOut) -> EvalSummary {
        EvalSummary {
            outcome: o.judged.outcome.to_string(),
            fired: o.judged.fired.clone(),
            probes: o.judged.probes.iter().map(|s| s.to_string()).collect(),
            violation: o.judged.violation.clone(),
            log_hash: o.log_hash,
            steps: o.steps,
            note: o.note.clone(),
        }
    }
    pub fn to_json(&self) -> Value {
        json!({
            "outcome": self.outcome, "fired": self.fired, "probes": self.probes,
            "violation": self.violation.as_ref().map(|v| json!({"oracle": v.oracle, "detail": v.detail, "fault_kind": v.fault_kind, "region": v.region, "site": v.site})),
            "log_hash": format!("{:016x}", self.log_hash), "steps": self.steps, "note": self.note,
        })
    }
    pub fn from_json(v: &Value) -> EvalSummary {
        let strs = |k: &str| -> Vec<String> { simcore::jarr(v, k).iter().filter_map(|x| x.as_str().map(|s| s.to_string())).collect() };
        let viol = v.get("violation").filter(|x| x.is_object()).map(|x| Violation {
            oracle: simcore::js(x, "oracle").to_string(),
            detail: simcore::js(x, "detail").to_string(),
            fault_kind: simcore::js(x, "fault_kind").to_string(),
            region: simcore::js(x, "region").to_string(),
            site: simcore::js(x, "site").to_string(),
        });
        EvalSummary {
            outcome: simcore::js(v, "outcome").to_string(),
            fired: strs("fired"),
            probes: strs("probes"),
            violation: viol,
            log_hash: u64::from_str_radix(simcore::js(v, "log_hash"), 16).unwrap_or(0),
            steps: simcore::ju(v, "steps"),
            note: simcore::js(v, "note").to_string(),
        }
    }
}
pub fn exec(case: &Case) -> Result<ExecOut, String> {
    let mut env = prepare(case)?;
    exec_in(case, &mut env)
}
pub fn exec_in(case: &Case, env: &mut Env) -> Result<ExecOut, String> {
    set_hooks(case);
    let mut h = Fnv::new();
    h.str(&case.config);
    h.u64(simcore::fnv_bytes(&env.ref_bytes));
    let judged;
    let steps;
    let mut note = String::new();
    match case.config.as_str() {
        "benign-write" | "hard-write" | "flush-eintr" => {
            let mode = match case.config.as_str() {
                "benign-write" => "benign",
                "hard-write" => "hard",
                _ => "flush-eintr",
            };
            let (res, w) = run_save(env, case.wplan.clone(), write_budget(env), true);
            h.str(res.class());
            h.u64(w.log.answers.0);
            h.u64(simcore::fnv_bytes(&w.accepted));
            steps = w.log.data_calls + w.log.flush_calls;
            judged = judge_save(env, &case.prop, mode, &res, &w);
        }
        "benign-read" | "hard-read" => {
            let mode = if case.config == "benign-read" { "benign" } else { "hard" };
            let (res, info) = run_load(env, &env.ref_bytes, case.rplan.clone(), read_budget(env, env.ref_bytes.len()), true, env.key);
            h.str(res.class());
            h.u64(info.log.answers.0);
            steps = info.log.data_calls;
            if mode == "hard" && info.log.first_hard_kind.as_deref() == Some("eof") {
                // premature EOF is a truncation: C07's rule applies (Err, or the original value)
                let region = region_of(env, info.log.first_hard_pos.unwrap_or(0));
                judged = judge_damaged(env, &case.prop, "hard-read-eof", "c07", &res, &info, info.consumed, "eof", region);
            } else {
                judged = judge_load(env, &format!("{}.{}-read", case.prop, mode), &res, &info, "", "");
            }
        }
        "crash-save" => {
            // C07 (a): the writer dies permanently at byte k; the durable image is whatever was accepted
            simcore::trace_line("PHASE save");
            let (res, w) = run_save(env, case.wplan.clone(), write_budget(env), true);
            simcore::trace_line("PHASE load");
            h.str(res.class());
            h.u64(simcore::fnv_bytes(&w.accepted));
            let image = w.accepted.clone();
            note = format!("save: {} image {} bytes", res.class(), image.len());
            let k = image.len();
            if k >= env.ref_bytes.len() && image == env.ref_bytes {
                // nothing was lost: not a strict prefix, nothing to judge
                steps = w.log.data_calls;
                judged = Judged { violation: None, fired: vec![], outcome: "complete", probes: vec![] };
            } else {
                let (lres, info) = run_load(env, &image, case.rplan.clone(), read_budget(env, image.len()), true, env.key);
                h.str(lres.class());
                h.u64(info.log.answers.0);
                steps = w.log.data_calls + info.log.data_calls;
                let region = region_of(env, k as u64);
                judged = judge_damaged(env, &case.prop, "crash-save", "c07", &lres, &info, k, "crash-during-save", region);
            }
        }
        "truncate" | "media" | "wrong-password" => {
            let needs_gen2 = case.media.iter().any(|m| matches!(m, MediaOp::Gen2(..)));
            if needs_gen2 {
                prepare_gen2(case, env);
                set_hooks(case);
            }
            let image = apply_media(&env.ref_bytes, &env.gen2_bytes, &case.media);
            let key = [case.load_key; 32];
            let (lres, info) = run_load(env, &image, case.rplan.clone(), read_budget(env, image.len()), true, key);
            if let Res::Err(e) = &lres {
                note = e.chars().take(120).collect();
            }
            h.str(lres.class());
            h.u64(info.log.answers.0);
            h.u64(simcore::fnv_bytes(&image));
            steps = info.log.data_calls;
            let (kind, pos) = match case.media.first() {
                Some(m) => (m.kind(), m.first_pos()),
                None => (if case.config == "wrong-password" { "wrong-password" } else { "none" }, 0),
            };
            let region = region_of(env, pos);
            let unchanged = image == env.ref_bytes && key == env.key;
            let append_only = image.len() > env.ref_bytes.len() && image[..env.ref_bytes.len()] == env.ref_bytes[..] && key == env.key;
            let other_generation = needs_gen2 && key == env.key && !env.gen2_bytes.is_empty() && image.len() >= env.gen2_bytes.len() && image[..env.gen2_bytes.len()] == env.gen2_bytes[..];
            if other_generation {
                // the torn write replaced the WHOLE file by its other generation (possibly followed by left-over bytes of
                // the longer old one): that is an intact file of another value (plus appended bytes), not a damaged one
                judged = Judged { violation: None, fired: vec![], outcome: "whole-other-generation-not-judged", probes: vec![] };
            } else if unchanged || (append_only && case.prop != "C06") {
                // the fault turned out to be a no-op (e.g. replaced a byte by itself), or only appended bytes after
                // the end of the file (the statements quantify over replacements and truncations; a reader that
                // stops at the end of the value never sees appended bytes): not judged
                judged = Judged { violation: None, fired: vec![], outcome: if unchanged { "noop-not-judged" } else { "append-only-not-judged" }, probes: vec![] };
            } else {
                let (mode, sub) = match case.prop.as_str() {
                    "C07" => ("c07", "truncate"),
                    "C14" => ("c14", if case.config == "wrong-password" { "wrong-password" } else { "media" }),
                    _ => ("c06", "media"),
                };
                // C07 quantifies over strict prefixes only
                judged = judge_damaged(env, &case.prop, sub, mode, &lres, &info, image.len(), kind, region);
            }
        }
        other => return Err(format!("unknown config {}", other)),
    }
    h.str(judged.outcome);
    if let Some(v) = &judged.violation {
        h.str(&v.oracle);
    }
    Ok(ExecOut { judged, log_hash: h.0, steps, note })
}
