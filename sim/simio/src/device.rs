//! The simulated byte device behind `Read` / `Write`.
//!
//! A plan is *data*: a cyclic pattern of per-call actions, explicit per-call overrides and
//! byte-offset triggers. Executing a plan draws nothing from any PRNG and reads no clock.
//! The device never panics (a panic in `write` would be re-entered from `Drop` during unwinding
//! and abort the process): when the call budget is exceeded it answers every further call with a
//! hard error, which breaks every retry loop.
use serde_json::{json, Value};
use std::io::{self, ErrorKind, Read, Write};

#[derive(Clone, Debug, PartialEq)]
pub enum Act {
    /// transfer everything asked for
    Full,
    /// transfer at most n bytes (n >= 1)
    Short(usize),
    /// Err(Interrupted), nothing transferred
    Eintr,
    /// Ok(0): for a writer "cannot accept" (true = from now on, false = this call only);
    /// for a reader premature end of file (always sticky)
    Zero(bool),
    /// a hard error of the given kind; permanent = this and every later call
    Err(ErrKind, bool),
}
#[derive(Clone, Copy, Debug, PartialEq)]
pub enum ErrKind {
    Other,
    BrokenPipe,
    StorageFull,
    WouldBlock,
    PermissionDenied,
    TimedOut,
    /// a *hard error* whose kind happens to be UnexpectedEof (code that treats that kind as a clean end of data
    /// would swallow it)
    UnexpectedEof,
    InvalidData,
}
impl ErrKind {
    pub const ALL: [ErrKind; 8] = [
        ErrKind::Other,
        ErrKind::BrokenPipe,
        ErrKind::StorageFull,
        ErrKind::WouldBlock,
        ErrKind::PermissionDenied,
        ErrKind::TimedOut,
        ErrKind::UnexpectedEof,
        ErrKind::InvalidData,
    ];
    pub fn name(self) -> &'static str {
        match self {
            ErrKind::Other => "Other",
            ErrKind::BrokenPipe => "BrokenPipe",
            ErrKind::StorageFull => "StorageFull",
            ErrKind::WouldBlock => "WouldBlock",
            ErrKind::PermissionDenied => "PermissionDenied",
            ErrKind::TimedOut => "TimedOut",
            ErrKind::UnexpectedEof => "UnexpectedEof",
            ErrKind::InvalidData => "InvalidData",
        }
    }
    pub fn from_name(s: &str) -> ErrKind {
        for k in ErrKind::ALL {
            if k.name() == s {
                return k;
            }
        }
        ErrKind::Other
    }
    pub fn to_io(self) -> io::Error {
        let k = match self {
            ErrKind::Other => ErrorKind::Other,
            ErrKind::BrokenPipe => ErrorKind::BrokenPipe,
            ErrKind::StorageFull => ErrorKind::StorageFull,
            ErrKind::WouldBlock => ErrorKind::WouldBlock,
            ErrKind::PermissionDenied => ErrorKind::PermissionDenied,
            ErrKind::TimedOut => ErrorKind::TimedOut,
            ErrKind::UnexpectedEof => ErrorKind::UnexpectedEof,
            ErrKind::InvalidData => ErrorKind::InvalidData,
        };
        io::Error::new(k, "simulated device error")
    }
}
impl Act {
    pub fn to_json(&self) -> Value {
        match self {
            Act::Full => json!(["full"]),
            Act::Short(n) => json!(["short", n]),
            Act::Eintr => json!(["eintr"]),
            Act::Zero(p) => json!(["zero", p]),
            Act::Err(k, p) => json!(["err", k.name(), p]),
        }
    }
    pub fn from_json(v: &Value) -> Act {
        let a = match v.as_array() {
            Some(a) if !a.is_empty() => a,
            _ => return Act::Full,
        };
        match a[0].as_str().unwrap_or("") {
            "short" => Act::Short(a.get(1).and_then(|x| x.as_u64()).unwrap_or(1).max(1) as usize),
            "eintr" => Act::Eintr,
            "zero" => Act::Zero(a.get(1).and_then(|x| x.as_bool()).unwrap_or(false)),
            "err" => Act::Err(
                ErrKind::from_name(a.get(1).and_then(|x| x.as_str()).unwrap_or("Other")),
                a.get(2).and_then(|x| x.as_bool()).unwrap_or(true),
            ),
            _ => Act::Full,
        }
    }
    pub fn kind_name(&self) -> &'static str {
        match self {
            Act::Full => "full",
            Act::Short(_) => "short",
            Act::Eintr => "eintr",
            Act::Zero(false) => "zero",
            Act::Zero(true) => "zero-perm",
            Act::Err(_, true) => "err-perm",
            Act::Err(_, false) => "err-transient",
        }
    }
    pub fn is_benign(&self) -> bool {
        matches!(self, Act::Full | Act::Short(_) | Act::Eintr)
    }
    pub fn transfers(&self) -> bool {
        matches!(self, Act::Full | Act::Short(_))
    }
}

/// Plan for one direction of the device.
#[derive(Clone, Debug, Default, PartialEq)]
pub struct IoPlan {
    /// cycled over data calls (read or write) that have no override; empty = all Full
    pub pattern: Vec<Act>,
    /// (call index, action)
    pub overrides: Vec<(u64, Act)>,
    /// (byte offset, action): the call that would cross `offset` is first shortened so that it ends
    /// exactly at `offset`; the next call (which starts at `offset`) gets the action.
    pub at_offset: Vec<(u64, Act)>,
    /// flush calls (writer only): (flush index, action); Eintr / Err are meaningful
    pub flush_overrides: Vec<(u64, Act)>,
}
impl IoPlan {
    pub fn to_json(&self) -> Value {
        json!({
            "pattern": self.pattern.iter().map(|a| a.to_json()).collect::<Vec<_>>(),
            "overrides": self.overrides.iter().map(|(i,a)| json!([i, a.to_json()])).collect::<Vec<_>>(),
            "at_offset": self.at_offset.iter().map(|(i,a)| json!([i, a.to_json()])).collect::<Vec<_>>(),
            "flush": self.flush_overrides.iter().map(|(i,a)| json!([i, a.to_json()])).collect::<Vec<_>>(),
        })
    }
    pub fn from_json(v: &Value) -> IoPlan {
        let pairs = |k: &str| -> Vec<(u64, Act)> {
            simcore::jarr(v, k)
                .iter()
                .filter_map(|e| {
                    let a = e.as_array()?;
                    Some((a.first()?.as_u64()?, Act::from_json(a.get(1)?)))
                })
                .collect()
        };
        IoPlan {
            pattern: simcore::jarr(v, "pattern").iter().map(Act::from_json).collect(),
            overrides: pairs("overrides"),
            at_offset: pairs("at_offset"),
            flush_overrides: pairs("flush"),
        }
    }
    pub fn is_trivial(&self) -> bool {
        self.pattern.iter().all(|a| *a == Act::Full)
            && self.overrides.is_empty()
            && self.at_offset.is_empty()
            && self.flush_overrides.is_empty()
    }
    fn action_for(&self, call: u64, pos: u64, spent: &mut Vec<usize>) -> (Act, bool) {
        // returns (action, came_from_offset_trigger); every offset trigger fires once
        for (i, (off, a)) in self.at_offset.iter().enumerate() {
            if *off == pos && !spent.contains(&i) {
                spent.push(i);
                return (a.clone(), true);
            }
        }
        for (i, a) in &self.overrides {
            if *i == call {
                return (a.clone(), false);
            }
        }
        if self.pattern.is_empty() {
            (Act::Full, false)
        } else {
            (self.pattern[(call % self.pattern.len() as u64) as usize].clone(), false)
        }
    }
    /// smallest offset trigger strictly above pos
    fn next_trigger_after(&self, pos: u64) -> Option<u64> {
        self.at_offset.iter().map(|(o, _)| *o).filter(|o| *o > pos).min()
    }
}

/// What the device observed / delivered; all plain counters, never part of a decision.
#[derive(Clone, Debug, Default)]
pub struct DevLog {
    pub data_calls: u64,
    pub flush_calls: u64,
    pub shorts: u64,
    pub eintrs: u64,
    pub zeros: u64,
    pub hard_errors: u64,
    pub flush_errors: u64,
    pub flush_eintrs: u64,
    /// index of the first data/flush call that was answered with a non-benign action
    pub first_hard_call: Option<u64>,
    /// device position when the first non-benign answer was given
    pub first_hard_pos: Option<u64>,
    pub first_hard_kind: Option<String>,
    /// calls that arrived after the device had returned a *permanent* hard error
    pub calls_after_permanent: u64,
    pub budget_exceeded: bool,
    /// position of every benign non-full event (for reach probes): (pos, kind)
    pub benign_events: Vec<(u64, &'static str)>,
    /// hash of the (kind, size) sequence of answers - part of the run's event log hash
    pub answers: simcore::Fnv,
    /// forced progress events (device overrode a no-progress answer)
    pub forced_progress: u64,
}

pub struct SimWriter {
    pub plan: IoPlan,
    pub accepted: Vec<u8>,
    pub log: DevLog,
    /// number of accepted bytes at the time of the first hard error (prefix to judge)
    pub accepted_at_first_hard: Option<usize>,
    /// accepted bytes when the first flush was answered with Interrupted (the caller sees a failure there)
    pub first_flush_eintr_at: Option<usize>,
    permanent: Option<ErrKind>,
    budget: u64,
    noprogress: u32,
    /// if true, the device guarantees progress (benign configuration)
    pub force_progress: bool,
    calls_total: u64,
    zero_forever: bool,
    spent: Vec<usize>,
}
impl SimWriter {
    pub fn new(plan: IoPlan, budget: u64, force_progress: bool) -> SimWriter {
        SimWriter {
            plan,
            accepted: Vec::new(),
            log: DevLog::default(),
            accepted_at_first_hard: None,
            first_flush_eintr_at: None,
            permanent: None,
            budget,
            noprogress: 0,
            force_progress,
            calls_total: 0,
            zero_forever: false,
            spent: Vec::new(),
        }
    }
    fn note_hard(&mut self, call: u64, what: &str) {
        if self.log.first_hard_call.is_none() {
            self.log.first_hard_call = Some(call);
            self.log.first_hard_pos = Some(self.accepted.len() as u64);
            self.log.first_hard_kind = Some(what.to_string());
            self.accepted_at_first_hard = Some(self.accepted.len());
        }
    }
    fn over_budget(&mut self) -> bool {
        self.calls_total += 1;
        if self.calls_total > self.budget {
            self.log.budget_exceeded = true;
            true
        } else {
            false
        }
    }
}
impl Write for SimWriter {
    fn write(&mut self, buf: &[u8]) -> io::Result<usize> {
        if self.over_budget() {
            return Err(io::Error::new(ErrorKind::Other, "simulated device: call budget exceeded"));
        }
        let call = self.log.data_calls;
        self.log.data_calls += 1;
        if let Some(k) = self.permanent {
            self.log.calls_after_permanent += 1;
            self.log.answers.str("perm");
            return Err(k.to_io());
        }
        if buf.is_empty() {
            self.log.answers.str("empty");
            return Ok(0);
        }
        if self.zero_forever {
            self.log.zeros += 1;
            self.log.answers.str("zero");
            return Ok(0);
        }
        let pos = self.accepted.len() as u64;
        let (mut act, _) = self.plan.action_for(call, pos, &mut self.spent);
        if self.force_progress && act == Act::Eintr && self.noprogress >= 3 {
            act = Act::Full;
            self.log.forced_progress += 1;
        }
        // never run past an offset trigger
        let mut limit = buf.len();
        if let Some(t) = self.plan.next_trigger_after(pos) {
            limit = limit.min((t - pos) as usize);
        }
        match act {
            Act::Full | Act::Short(_) => {
                let mut n = limit;
                if let Act::Short(k) = act {
                    n = n.min(k.max(1));
                }
                if n < buf.len() {
                    self.log.shorts += 1;
                    if self.log.benign_events.len() < 64 {
                        self.log.benign_events.push((pos, "short"));
                    }
                }
                self.accepted.extend_from_slice(&buf[..n]);
                self.noprogress = 0;
                self.log.answers.str("w");
                self.log.answers.u64(n as u64);
                Ok(n)
            }
            Act::Eintr => {
                self.log.eintrs += 1;
                self.noprogress += 1;
                if self.log.benign_events.len() < 64 {
                    self.log.benign_events.push((pos, "eintr"));
                }
                self.log.answers.str("eintr");
                Err(io::Error::new(ErrorKind::Interrupted, "simulated EINTR"))
            }
            Act::Zero(perm) => {
                self.log.zeros += 1;
                self.noprogress += 1;
                self.note_hard(call, if perm { "zero-perm" } else { "zero" });
                if perm {
                    self.zero_forever = true;
                }
                self.log.answers.str("zero");
                Ok(0)
            }
            Act::Err(k, perm) => {
                self.log.hard_errors += 1;
                self.note_hard(call, if perm { "err-perm" } else { "err-transient" });
                if perm {
                    self.permanent = Some(k);
                }
                self.log.answers.str("err");
                Err(k.to_io())
            }
        }
    }
    fn flush(&mut self) -> io::Result<()> {
        if self.over_budget() {
            return Err(io::Error::new(ErrorKind::Other, "simulated device: call budget exceeded"));
        }
        let idx = self.log.flush_calls;
        self.log.flush_calls += 1;
        if let Some(k) = self.permanent {
            self.log.calls_after_permanent += 1;
            self.log.answers.str("fperm");
            return Err(k.to_io());
        }
        let mut act = Act::Full;
        for (i, a) in &self.plan.flush_overrides {
            if *i == idx {
                act = a.clone();
            }
        }
        match act {
            Act::Eintr => {
                self.log.flush_eintrs += 1;
                if self.accepted_at_first_hard.is_none() && self.first_flush_eintr_at.is_none() {
                    self.first_flush_eintr_at = Some(self.accepted.len());
                }
                self.log.answers.str("feintr");
                Err(io::Error::new(ErrorKind::Interrupted, "simulated EINTR (flush)"))
            }
            Act::Err(k, perm) => {
                self.log.flush_errors += 1;
                let call = self.log.data_calls;
                self.note_hard(call, if perm { "flush-err-perm" } else { "flush-err-transient" });
                if perm {
                    self.permanent = Some(k);
                }
                self.log.answers.str("ferr");
                Err(k.to_io())
            }
            _ => {
                self.log.answers.str("f");
                Ok(())
            }
        }
    }
}

pub struct SimReader<'a> {
    pub plan: IoPlan,
    pub data: &'a [u8],
    pub pos: usize,
    pub log: DevLog,
    permanent: Option<ErrKind>,
    budget: u64,
    noprogress: u32,
    pub force_progress: bool,
    calls_total: u64,
    /// largest single buffer the code under test asked us to fill
    pub max_request: usize,
    spent: Vec<usize>,
}
impl<'a> SimReader<'a> {
    pub fn new(data: &'a [u8], plan: IoPlan, budget: u64, force_progress: bool) -> SimReader<'a> {
        SimReader {
            plan,
            data,
            pos: 0,
            log: DevLog::default(),
            permanent: None,
            budget,
            noprogress: 0,
            force_progress,
            calls_total: 0,
            max_request: 0,
            spent: Vec::new(),
        }
    }
    fn note_hard(&mut self, call: u64, what: &str) {
        if self.log.first_hard_call.is_none() {
            self.log.first_hard_call = Some(call);
            self.log.first_hard_pos = Some(self.pos as u64);
            self.log.first_hard_kind = Some(what.to_string());
        }
    }
}
impl Read for SimReader<'_> {
    fn read(&mut self, buf: &mut [u8]) -> io::Result<usize> {
        self.calls_total += 1;
        if self.calls_total > self.budget {
            self.log.budget_exceeded = true;
            return Err(io::Error::new(ErrorKind::Other, "simulated device: call budget exceeded"));
        }
        let call = self.log.data_calls;
        self.log.data_calls += 1;
        self.max_request = self.max_request.max(buf.len());
        if let Some(k) = self.permanent {
            self.log.calls_after_permanent += 1;
            self.log.answers.str("perm");
            return Err(k.to_io());
        }
        if buf.is_empty() {
            self.log.answers.str("empty");
            return Ok(0);
        }
        let pos = self.pos as u64;
        let (mut act, _) = self.plan.action_for(call, pos, &mut self.spent);
        let avail = self.data.len() - self.pos;
        if self.force_progress && act == Act::Eintr && self.noprogress >= 3 {
            act = Act::Full;
            self.log.forced_progress += 1;
        }
        let mut limit = buf.len().min(avail);
        if let Some(t) = self.plan.next_trigger_after(pos) {
            limit = limit.min((t - pos) as usize);
        }
        match act {
            Act::Full | Act::Short(_) => {
                let mut n = limit;
                if let Act::Short(k) = act {
                    n = n.min(k.max(1));
                }
                if n < buf.len() && n < avail {
                    self.log.shorts += 1;
                    if self.log.benign_events.len() < 64 {
                        self.log.benign_events.push((pos, "short"));
                    }
                }
                buf[..n].copy_from_slice(&self.data[self.pos..self.pos + n]);
                self.pos += n;
                self.noprogress = 0;
                self.log.answers.str("r");
                self.log.answers.u64(n as u64);
                Ok(n)
            }
            Act::Eintr => {
                self.log.eintrs += 1;
                self.noprogress += 1;
                if self.log.benign_events.len() < 64 {
                    self.log.benign_events.push((pos, "eintr"));
                }
                self.log.answers.str("eintr");
                Err(io::Error::new(ErrorKind::Interrupted, "simulated EINTR"))
            }
            Act::Zero(_) => {
                // premature end of file, sticky (a real file does not grow back)
                self.log.zeros += 1;
                self.note_hard(call, "eof");
                self.data = &self.data[..self.pos];
                self.log.answers.str("zero");
                Ok(0)
            }
            Act::Err(k, perm) => {
                self.log.hard_errors += 1;
                self.note_hard(call, if perm { "err-perm" } else { "err-transient" });
                if perm {
                    self.permanent = Some(k);
                }
                self.log.answers.str("err");
                Err(k.to_io())
            }
        }
    }
}
