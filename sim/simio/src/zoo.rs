//! The value zoo: harness types chosen to put in-flight state into every wrapper and to cover every
//! mechanism the properties anchor (bulk paths, strings, options, enums, maps, shared strings,
//! net/time types, bit vectors, fixed-capacity containers, large incompressible blobs).
//! It is NOT meant to cover the type space (that would be C01, which this technique does not decide).
#![allow(dead_code)]
use arrayvec::ArrayVec;
use bit_vec::BitVec;
use indexmap::IndexMap;
use savefile::prelude::*;
use simcore::Rng;
use smallvec::SmallVec;
use std::any::Any;
use std::collections::BTreeMap;
use std::io::{Read, Write};
use std::net::{IpAddr, Ipv4Addr, Ipv6Addr, SocketAddr};
use std::sync::Arc;
use std::time::{Duration, SystemTime};

// ---------------------------------------------------------------------------------------------
// structural walk (C06): accumulates the minimum number of bytes any encoding of the value needs,
// checks collection lengths BEFORE touching elements, and validates bool/char/enum bit patterns
// through raw byte views (so that an invalid value is detected, not "used").
// ---------------------------------------------------------------------------------------------
pub struct Walker {
    /// bytes of input that could have encoded the value (payload bytes available)
    pub avail: u128,
    pub min_bytes: u128,
    /// sum over all collections of (elements x minimal encoded size of one element, not counting what nested
    /// collections account for themselves)
    pub payload: u128,
    pub problems: Vec<String>,
    pub elements_touched: u64,
}
impl Walker {
    pub fn new(avail: usize) -> Walker {
        Walker {
            avail: avail as u128,
            min_bytes: 0,
            payload: 0,
            problems: Vec::new(),
            elements_touched: 0,
        }
    }
    pub fn prim(&mut self, n: usize) {
        self.min_bytes += n as u128;
    }
    /// Register a collection with `len` elements of at least `min_elem` encoded bytes each.
    /// Returns true if it is safe to iterate the elements.
    pub fn collection(&mut self, what: &str, len: usize, min_elem: usize) -> bool {
        self.min_bytes += 8;
        let need = len as u128 * min_elem as u128;
        if need > self.avail {
            self.problems.push(format!(
                "oversized:{} claims {} elements (>= {} bytes) but only {} input bytes exist",
                what, len, need, self.avail
            ));
            return false;
        }
        self.payload += need;
        true
    }
    /// a string: a collection of bytes that must also be valid UTF-8 (checked on the raw bytes; a `str` that is not
    /// valid UTF-8 is an invalid value even if nothing has tripped over it yet)
    pub fn string(&mut self, what: &str, bytes: &[u8]) -> bool {
        if !self.collection(what, bytes.len(), 1) {
            return false;
        }
        if std::str::from_utf8(bytes).is_err() {
            self.problem(format!("invalid-utf8:{} of {} bytes", what, bytes.len()));
            return false;
        }
        true
    }
    /// after the walk: everything the value holds, taken together, must have fitted into the input
    pub fn check_total(&mut self) {
        if self.problems.is_empty() && self.payload > self.avail {
            self.problems.push(format!("oversized-total:the collections of the value hold at least {} encoded bytes between them but only {} input bytes exist", self.payload, self.avail));
        }
    }
    pub fn problem(&mut self, p: String) {
        if self.problems.len() < 8 {
            self.problems.push(p);
        }
    }
}

pub trait ZooVal: Sized + 'static {
    fn gen(rng: &mut Rng, sc: u8, hint: usize) -> Self;
    fn walk(&self, w: &mut Walker);
    /// whether two equal values must also re-serialize to identical bytes (false for containers whose iteration
    /// order is not part of their value: hash sets, binary heaps)
    const BYTES_ARE_CANONICAL: bool = true;
    /// data version the value is saved AND loaded with (version 0 unless the type carries version attributes)
    const VERSION: u32 = 0;
}

/// collection length for a size class
pub fn len_for(rng: &mut Rng, sc: u8, hint: usize) -> usize {
    match sc {
        0 => 0,
        1 => 1,
        2 => *rng.pick(&[
            2usize, 3, 7, 8, 9, 15, 16, 17, 31, 32, 33, 59, 60, 61, 62, 63, 64, 65, 70, 127, 128, 129,
        ]),
        3 => rng.range(100, 1500) as usize,
        _ => hint.max(1),
    }
}
fn gen_string(rng: &mut Rng, sc: u8, hint: usize) -> String {
    let n = len_for(rng, sc.min(3), hint).min(300);
    let mut s = String::with_capacity(n + 4);
    for _ in 0..n {
        let c = match rng.below(20) {
            0 => 'å',
            1 => '€',
            2 => '𝄞',
            _ => (b'a' + rng.below(26) as u8) as char,
        };
        s.push(c);
    }
    s
}
fn gen_f64(rng: &mut Rng) -> f64 {
    match rng.below(8) {
        0 => 0.0,
        1 => -0.0,
        2 => f64::INFINITY,
        3 => f64::MIN_POSITIVE,
        _ => (rng.next_u64() as i64 as f64) / 1024.0,
    }
}

#[derive(Savefile, Debug, PartialEq, Clone)]
pub struct Inner {
    pub x: u8,
    pub y: f64,
}
#[derive(Savefile, Debug, PartialEq, Clone)]
pub struct RecSmall {
    pub a: u32,
    pub s: String,
    pub v: Vec<u16>,
    pub o: Option<i64>,
    pub inner: Inner,
    pub flag: bool,
}
impl ZooVal for RecSmall {
    fn gen(rng: &mut Rng, sc: u8, hint: usize) -> Self {
        let n = len_for(rng, sc, hint / 2);
        RecSmall {
            a: rng.next_u64() as u32,
            s: gen_string(rng, sc, hint),
            v: (0..n).map(|_| rng.next_u64() as u16).collect(),
            o: if rng.chance(1, 2) { Some(rng.next_u64() as i64) } else { None },
            inner: Inner {
                x: rng.next_u64() as u8,
                y: gen_f64(rng),
            },
            flag: rng.chance(1, 2),
        }
    }
    fn walk(&self, w: &mut Walker) {
        w.prim(4);
        if w.string("String", self.s.as_bytes()) {
            w.elements_touched += self.s.chars().count() as u64;
        }
        if w.collection("Vec<u16>", self.v.len(), 2) {
            let mut acc = 0u64;
            for x in &self.v {
                acc = acc.wrapping_add(*x as u64);
            }
            std::hint::black_box(acc);
            w.elements_touched += self.v.len() as u64;
        }
        w.prim(1 + 1 + 8 + 1);
        let b = unsafe { *(&self.flag as *const bool as *const u8) };
        if b > 1 {
            w.problem(format!("invalid-bool:{}", b));
        }
    }
}

#[derive(Savefile, Debug, PartialEq, Clone, Copy)]
#[savefile_unsafe_and_fast]
#[repr(C)]
pub struct PackedPt {
    pub x: u32,
    pub y: u32,
}
#[derive(Savefile, Debug, PartialEq, Clone)]
pub struct PackedVec {
    pub pts: Vec<PackedPt>,
    pub tail: u16,
}
impl ZooVal for PackedVec {
    fn gen(rng: &mut Rng, sc: u8, hint: usize) -> Self {
        let n = len_for(rng, sc, hint / 8);
        PackedVec {
            pts: (0..n)
                .map(|_| PackedPt {
                    x: rng.next_u64() as u32,
                    y: rng.next_u64() as u32,
                })
                .collect(),
            tail: rng.next_u64() as u16,
        }
    }
    fn walk(&self, w: &mut Walker) {
        if w.collection("Vec<PackedPt>", self.pts.len(), 8) {
            let mut acc = 0u64;
            for p in &self.pts {
                acc = acc.wrapping_add(p.x as u64 ^ p.y as u64);
            }
            std::hint::black_box(acc);
            w.elements_touched += self.pts.len() as u64;
        }
        w.prim(2);
    }
}

#[derive(Savefile, Debug, PartialEq, Clone, Copy)]
#[savefile_unsafe_and_fast]
#[repr(u8)]
pub enum E8 {
    A,
    B,
    C,
    D,
}
#[derive(Savefile, Debug, PartialEq, Clone)]
pub struct Prims {
    pub bools: Vec<bool>,
    pub chars: Vec<char>,
    pub enums: Vec<E8>,
    pub arr: [u32; 5],
    pub sarr: [String; 3],
    pub tup: (u8, i16, u64),
    pub big: i128,
    pub c: char,
    pub e: E8,
}
impl ZooVal for Prims {
    fn gen(rng: &mut Rng, sc: u8, hint: usize) -> Self {
        let n1 = len_for(rng, sc, hint / 3);
        let n2 = len_for(rng, sc, hint / 12);
        let n3 = len_for(rng, sc, hint / 3);
        let ch = |rng: &mut Rng| -> char {
            match rng.below(4) {
                0 => 'x',
                1 => 'Ö',
                2 => '\u{10FFFF}',
                _ => char::from_u32(rng.below(0xD000) as u32).unwrap_or('?'),
            }
        };
        let en = |rng: &mut Rng| -> E8 {
            match rng.below(4) {
                0 => E8::A,
                1 => E8::B,
                2 => E8::C,
                _ => E8::D,
            }
        };
        Prims {
            bools: (0..n1).map(|_| rng.chance(1, 2)).collect(),
            chars: (0..n2).map(|_| ch(rng)).collect(),
            enums: (0..n3).map(|_| en(rng)).collect(),
            arr: [
                rng.next_u64() as u32,
                rng.next_u64() as u32,
                0,
                u32::MAX,
                rng.next_u64() as u32,
            ],
            sarr: [gen_string(rng, sc.min(2), 0), String::new(), gen_string(rng, 1, 0)],
            tup: (rng.next_u64() as u8, rng.next_u64() as i16, rng.next_u64()),
            big: ((rng.next_u64() as u128) << 64 | rng.next_u64() as u128) as i128,
            c: ch(rng),
            e: en(rng),
        }
    }
    fn walk(&self, w: &mut Walker) {
        if w.collection("Vec<bool>", self.bools.len(), 1) {
            let raw = unsafe { std::slice::from_raw_parts(self.bools.as_ptr() as *const u8, self.bools.len()) };
            if let Some(b) = raw.iter().find(|b| **b > 1) {
                w.problem(format!("invalid-bool-in-vec:{}", b));
            }
            w.elements_touched += raw.len() as u64;
        }
        if w.collection("Vec<char>", self.chars.len(), 4) {
            let raw = unsafe { std::slice::from_raw_parts(self.chars.as_ptr() as *const u32, self.chars.len()) };
            if let Some(c) = raw.iter().find(|c| char::from_u32(**c).is_none()) {
                w.problem(format!("invalid-char-in-vec:{:#x}", c));
            }
            w.elements_touched += raw.len() as u64;
        }
        if w.collection("Vec<E8>", self.enums.len(), 1) {
            let raw = unsafe { std::slice::from_raw_parts(self.enums.as_ptr() as *const u8, self.enums.len()) };
            if let Some(c) = raw.iter().find(|c| **c > 3) {
                w.problem(format!("invalid-enum-in-vec:{}", c));
            }
            w.elements_touched += raw.len() as u64;
        }
        w.prim(20);
        for s in &self.sarr {
            w.string("String", s.as_bytes());
        }
        w.prim(1 + 2 + 8 + 16 + 4 + 1);
        let c = unsafe { *(&self.c as *const char as *const u32) };
        if char::from_u32(c).is_none() {
            w.problem(format!("invalid-char:{:#x}", c));
        }
        let e = unsafe { *(&self.e as *const E8 as *const u8) };
        if e > 3 {
            w.problem(format!("invalid-enum:{}", e));
        }
    }
}

#[derive(Savefile, Debug, PartialEq, Clone)]
pub enum Shape {
    Unit,
    Tuple(u32, String),
    Struct { a: Vec<u8>, b: bool },
    Nested(Box<Shape>),
}
#[derive(Savefile, Debug, PartialEq, Clone)]
pub struct Shapes {
    pub shapes: Vec<Shape>,
    pub res: Result<u32, String>,
}
fn gen_shape(rng: &mut Rng, sc: u8, depth: u32) -> Shape {
    match rng.below(if depth > 2 { 3 } else { 4 }) {
        0 => Shape::Unit,
        1 => Shape::Tuple(rng.next_u64() as u32, gen_string(rng, sc.min(2), 0)),
        2 => Shape::Struct {
            a: { let n = len_for(rng, sc.min(2), 0); rng.bytes(n) },
            b: rng.chance(1, 2),
        },
        _ => Shape::Nested(Box::new(gen_shape(rng, sc, depth + 1))),
    }
}
fn walk_shape(s: &Shape, w: &mut Walker) {
    w.prim(1);
    match s {
        Shape::Unit => {}
        Shape::Tuple(_, st) => {
            w.prim(4);
            w.string("String", st.as_bytes());
        }
        Shape::Struct { a, b } => {
            w.collection("Vec<u8>", a.len(), 1);
            w.prim(1);
            let raw = unsafe { *(b as *const bool as *const u8) };
            if raw > 1 {
                w.problem(format!("invalid-bool:{}", raw));
            }
        }
        Shape::Nested(n) => walk_shape(n, w),
    }
}
impl ZooVal for Shapes {
    fn gen(rng: &mut Rng, sc: u8, hint: usize) -> Self {
        let n = len_for(rng, sc, hint / 20).min(400);
        Shapes {
            shapes: (0..n).map(|_| gen_shape(rng, sc, 0)).collect(),
            res: if rng.chance(1, 2) {
                Ok(rng.next_u64() as u32)
            } else {
                Err(gen_string(rng, 2, 0))
            },
        }
    }
    fn walk(&self, w: &mut Walker) {
        if w.collection("Vec<Shape>", self.shapes.len(), 1) {
            for s in &self.shapes {
                walk_shape(s, w);
            }
            w.elements_touched += self.shapes.len() as u64;
        }
        w.prim(1);
        match &self.res {
            Ok(_) => w.prim(4),
            Err(s) => {
                w.string("String", s.as_bytes());
            }
        }
    }
}

#[derive(Savefile, Debug, PartialEq, Clone)]
pub struct Maps {
    pub bt: BTreeMap<String, Vec<u8>>,
    pub im: IndexMap<u32, String>,
}
impl ZooVal for Maps {
    fn gen(rng: &mut Rng, sc: u8, hint: usize) -> Self {
        let n = len_for(rng, sc, hint / 40).min(300);
        let mut bt = BTreeMap::new();
        for i in 0..n {
            let mut k = gen_string(rng, 2, 0);
            k.push_str(&i.to_string());
            let n2 = len_for(rng, sc.min(2), 0);
            bt.insert(k, rng.bytes(n2));
        }
        let m = len_for(rng, sc.min(2), 0);
        let mut im = IndexMap::new();
        for i in 0..m {
            im.insert((rng.next_u64() as u32) ^ i as u32, gen_string(rng, 1, 0));
        }
        Maps { bt, im }
    }
    fn walk(&self, w: &mut Walker) {
        if w.collection("BTreeMap", self.bt.len(), 16) {
            for (k, v) in &self.bt {
                w.string("String", k.as_bytes());
                w.collection("Vec<u8>", v.len(), 1);
            }
            w.elements_touched += self.bt.len() as u64;
        }
        if w.collection("IndexMap", self.im.len(), 12) {
            for (_k, v) in &self.im {
                w.prim(4);
                w.string("String", v.as_bytes());
            }
        }
    }
}

#[derive(Savefile, Debug, PartialEq, Clone)]
pub struct Shared {
    pub a: Arc<str>,
    pub b: Arc<str>,
    pub c: Box<u32>,
    pub d: Arc<Vec<u8>>,
    pub e: Option<Box<String>>,
}
impl ZooVal for Shared {
    fn gen(rng: &mut Rng, sc: u8, hint: usize) -> Self {
        let a: Arc<str> = gen_string(rng, sc, hint).into();
        let b = if rng.chance(1, 2) {
            a.clone()
        } else {
            gen_string(rng, sc, hint).into()
        };
        Shared {
            a,
            b,
            c: Box::new(rng.next_u64() as u32),
            d: { let n = len_for(rng, sc.min(3), 0); Arc::new(rng.bytes(n)) },
            e: if rng.chance(1, 2) {
                Some(Box::new(gen_string(rng, 2, 0)))
            } else {
                None
            },
        }
    }
    fn walk(&self, w: &mut Walker) {
        w.string("Arc<str>", self.a.as_bytes());
        w.string("Arc<str>", self.b.as_bytes());
        w.prim(4);
        w.collection("Vec<u8>", self.d.len(), 1);
        w.prim(1);
        if let Some(s) = &self.e {
            w.string("String", s.as_bytes());
        }
    }
}

#[derive(Savefile, Debug, PartialEq, Clone)]
pub struct NetTime {
    pub ip: IpAddr,
    pub sock: SocketAddr,
    pub ips: Vec<IpAddr>,
    pub t: SystemTime,
    pub d: Duration,
    pub ts: Vec<SystemTime>,
}
fn gen_ip(rng: &mut Rng) -> IpAddr {
    if rng.chance(1, 2) {
        IpAddr::V4(Ipv4Addr::from(rng.next_u64() as u32))
    } else {
        IpAddr::V6(Ipv6Addr::from(
            (rng.next_u64() as u128) << 64 | rng.next_u64() as u128,
        ))
    }
}
fn gen_time(rng: &mut Rng) -> SystemTime {
    let d = Duration::new(rng.below(4_000_000_000), rng.below(1_000_000_000) as u32);
    if rng.chance(1, 4) {
        SystemTime::UNIX_EPOCH - d
    } else {
        SystemTime::UNIX_EPOCH + d
    }
}
impl ZooVal for NetTime {
    fn gen(rng: &mut Rng, sc: u8, hint: usize) -> Self {
        let n = len_for(rng, sc.min(2), hint);
        let m = len_for(rng, sc.min(2), hint);
        NetTime {
            ip: gen_ip(rng),
            sock: SocketAddr::new(gen_ip(rng), rng.next_u64() as u16),
            ips: (0..n).map(|_| gen_ip(rng)).collect(),
            t: gen_time(rng),
            d: Duration::new(rng.next_u64() >> rng.below(40), rng.below(1_000_000_000) as u32),
            ts: (0..m).map(|_| gen_time(rng)).collect(),
        }
    }
    fn walk(&self, w: &mut Walker) {
        w.prim(5 + 7);
        if w.collection("Vec<IpAddr>", self.ips.len(), 5) {
            w.elements_touched += self.ips.len() as u64;
        }
        w.prim(32);
        if w.collection("Vec<SystemTime>", self.ts.len(), 16) {
            w.elements_touched += self.ts.len() as u64;
        }
    }
}

#[derive(Savefile, Debug, PartialEq, Clone)]
pub struct Bits {
    pub bv: BitVec,
    pub name: String,
    pub after: u32,
}
impl ZooVal for Bits {
    fn gen(rng: &mut Rng, sc: u8, hint: usize) -> Self {
        let n = len_for(rng, sc, hint * 4);
        let mut bv = BitVec::from_elem(n, false);
        for i in 0..n {
            if rng.chance(1, 3) {
                bv.set(i, true);
            }
        }
        Bits {
            bv,
            name: gen_string(rng, sc.min(2), 0),
            after: rng.next_u64() as u32,
        }
    }
    fn walk(&self, w: &mut Walker) {
        w.prim(16);
        let words = self.bv.storage().len();
        if self.bv.len() > words.saturating_mul(32) {
            w.problem(format!(
                "oversized:BitVec claims {} bits over {} storage words",
                self.bv.len(),
                words
            ));
        } else if (words as u128) * 4 > w.avail {
            w.problem(format!("oversized:BitVec storage {} words > input", words));
        } else {
            // touch every bit through the safe API
            let mut ones = 0u64;
            for b in self.bv.iter() {
                if b {
                    ones += 1;
                }
            }
            std::hint::black_box(ones);
            w.elements_touched += self.bv.len() as u64;
        }
        w.string("String", self.name.as_bytes());
        w.prim(4);
    }
}

#[derive(Savefile, Debug, PartialEq, Clone)]
pub struct Smalls {
    pub av: ArrayVec<u32, 8>,
    pub sv: SmallVec<[u16; 4]>,
    pub avs: ArrayVec<String, 3>,
    pub last: u8,
}
impl ZooVal for Smalls {
    fn gen(rng: &mut Rng, sc: u8, hint: usize) -> Self {
        let n = (len_for(rng, sc.min(2), hint)).min(8);
        let m = len_for(rng, sc.min(2), hint);
        let k = (len_for(rng, sc.min(2), hint)).min(3);
        let mut av = ArrayVec::new();
        for _ in 0..n {
            av.push(rng.next_u64() as u32);
        }
        let mut avs = ArrayVec::new();
        for _ in 0..k {
            avs.push(gen_string(rng, 2, 0));
        }
        Smalls {
            av,
            sv: (0..m).map(|_| rng.next_u64() as u16).collect(),
            avs,
            last: rng.next_u64() as u8,
        }
    }
    fn walk(&self, w: &mut Walker) {
        if self.av.len() > 8 {
            w.problem(format!("oversized:ArrayVec<u32,8> len {}", self.av.len()));
        }
        w.collection("ArrayVec<u32,8>", self.av.len(), 4);
        if w.collection("SmallVec", self.sv.len(), 2) {
            w.elements_touched += self.sv.len() as u64;
        }
        if self.avs.len() > 3 {
            w.problem(format!("oversized:ArrayVec<String,3> len {}", self.avs.len()));
        } else if w.collection("ArrayVec<String,3>", self.avs.len(), 8) {
            for s in &self.avs {
                w.string("String", s.as_bytes());
            }
        }
        w.prim(1);
    }
}

/// Large incompressible blob; `hint` = number of payload bytes wanted.
#[derive(Savefile, Debug, PartialEq, Clone)]
pub struct BigBlob {
    pub words: Vec<u64>,
    pub end: u32,
}
impl ZooVal for BigBlob {
    fn gen(rng: &mut Rng, sc: u8, hint: usize) -> Self {
        let n = if sc >= 4 { (hint / 8).max(1) } else { len_for(rng, sc, hint) };
        BigBlob {
            words: (0..n).map(|_| rng.next_u64()).collect(),
            end: 0xE0E1E2E3,
        }
    }
    fn walk(&self, w: &mut Walker) {
        if w.collection("Vec<u64>", self.words.len(), 8) {
            let mut acc = 0u64;
            for x in &self.words {
                acc ^= *x;
            }
            std::hint::black_box(acc);
            w.elements_touched += self.words.len() as u64;
        }
        w.prim(4);
    }
}

#[derive(Savefile, Debug, PartialEq, Clone)]
pub struct Strings {
    pub v: Vec<String>,
    pub o: Option<String>,
}
impl ZooVal for Strings {
    fn gen(rng: &mut Rng, sc: u8, hint: usize) -> Self {
        let n = len_for(rng, sc, hint / 30).min(2000);
        Strings {
            v: (0..n).map(|_| gen_string(rng, 2, 0)).collect(),
            o: if rng.chance(1, 2) {
                Some(gen_string(rng, sc.min(3), 0))
            } else {
                None
            },
        }
    }
    fn walk(&self, w: &mut Walker) {
        if w.collection("Vec<String>", self.v.len(), 8) {
            for s in &self.v {
                w.string("String", s.as_bytes());
            }
            w.elements_touched += self.v.len() as u64;
        }
        w.prim(1);
        if let Some(s) = &self.o {
            w.string("String", s.as_bytes());
        }
    }
}

/// Values that END in a collection read through a special path (nothing follows, so a wrong element / byte count
/// is not masked by the next field failing to parse).
#[derive(Savefile, Debug, PartialEq, Clone)]
pub struct BitsLast {
    pub name: String,
    pub bv: BitVec,
}
impl ZooVal for BitsLast {
    fn gen(rng: &mut Rng, sc: u8, hint: usize) -> Self {
        let b = Bits::gen(rng, sc, hint);
        BitsLast { name: b.name, bv: b.bv }
    }
    fn walk(&self, w: &mut Walker) {
        let b = Bits { bv: self.bv.clone(), name: self.name.clone(), after: 0 };
        // clone() of a BitVec copies storage and nbits verbatim; the checks are the same as for Bits
        b.walk(w);
    }
}
#[derive(Savefile, Debug, PartialEq, Clone)]
pub struct PackedLast {
    pub tag: u16,
    pub av: ArrayVec<u32, 8>,
    pub pts: Vec<PackedPt>,
}
impl ZooVal for PackedLast {
    fn gen(rng: &mut Rng, sc: u8, hint: usize) -> Self {
        let p = PackedVec::gen(rng, sc, hint);
        let s = Smalls::gen(rng, sc.min(2), hint);
        PackedLast { tag: p.tail, av: s.av, pts: p.pts }
    }
    fn walk(&self, w: &mut Walker) {
        w.prim(2);
        if self.av.len() > 8 {
            w.problem(format!("oversized:ArrayVec<u32,8> len {}", self.av.len()));
        }
        w.collection("ArrayVec<u32,8>", self.av.len(), 4);
        if w.collection("Vec<PackedPt>", self.pts.len(), 8) {
            let mut acc = 0u64;
            for p in &self.pts {
                acc = acc.wrapping_add(p.x as u64 ^ p.y as u64);
            }
            std::hint::black_box(acc);
            w.elements_touched += self.pts.len() as u64;
        }
    }
}
#[derive(Savefile, Debug, PartialEq, Clone)]
pub struct ArrLast {
    pub n: u8,
    pub names: [String; 3],
    pub av: ArrayVec<u8, 4>,
}
impl ZooVal for ArrLast {
    fn gen(rng: &mut Rng, sc: u8, hint: usize) -> Self {
        let k = (len_for(rng, sc.min(2), hint)).min(4);
        let mut av = ArrayVec::new();
        for _ in 0..k {
            av.push(rng.next_u64() as u8);
        }
        ArrLast { n: rng.next_u64() as u8, names: [gen_string(rng, sc.min(2), 0), gen_string(rng, 1, 0), String::new()], av }
    }
    fn walk(&self, w: &mut Walker) {
        w.prim(1);
        for s in &self.names {
            w.string("String", s.as_bytes());
        }
        if self.av.len() > 4 {
            w.problem(format!("oversized:ArrayVec<u8,4> len {}", self.av.len()));
        }
        w.collection("ArrayVec<u8,4>", self.av.len(), 1);
    }
}

/// Less common supported types, so that their readers are exercised at all (paths, Cow, sets, deques, heaps,
/// shared slices, ranges, cells, atomics, timestamps); ends in a deque of strings (element-wise path).
#[derive(SavefileNoIntrospect)]
pub struct Misc {
    pub path: std::path::PathBuf,
    pub cow: std::borrow::Cow<'static, str>,
    pub bset: std::collections::BTreeSet<String>,
    pub hset: std::collections::HashSet<u32, std::hash::BuildHasherDefault<std::collections::hash_map::DefaultHasher>>,
    pub iset: indexmap::IndexSet<u16>,
    pub dq: std::collections::VecDeque<u32>,
    pub range: std::ops::Range<u32>,
    pub one: (u8,),
    pub astr: arrayvec::ArrayString<16>,
    pub rc: std::rc::Rc<u8>,
    pub refcell: std::cell::RefCell<u16>,
    pub cell: std::cell::Cell<u8>,
    pub atomic: std::sync::atomic::AtomicU32,
    pub when: chrono::DateTime<chrono::Utc>,
    pub last: std::collections::VecDeque<String>,
}
impl Misc {
    fn key(&self) -> String {
        let mut h: Vec<u32> = self.hset.iter().copied().collect();
        h.sort();
        format!(
            "{:?}|{:?}|{:?}|{:?}|{:?}|{:?}|{:?}|{:?}|{:?}|{:?}|{:?}|{:?}|{:?}|{:?}|{:?}",
            self.path, self.cow, self.bset, h, self.iset, self.dq, self.range, self.one, self.astr.as_str(), self.rc, self.refcell.borrow(), self.cell.get(),
            self.atomic.load(std::sync::atomic::Ordering::Relaxed), self.when.timestamp_nanos_opt(), self.last
        )
    }
}
impl PartialEq for Misc {
    fn eq(&self, o: &Misc) -> bool {
        self.key() == o.key()
    }
}
impl std::fmt::Debug for Misc {
    fn fmt(&self, f: &mut std::fmt::Formatter<'_>) -> std::fmt::Result {
        write!(f, "Misc {{ {} }}", self.key())
    }
}
impl ZooVal for Misc {
    const BYTES_ARE_CANONICAL: bool = false;
    fn gen(rng: &mut Rng, sc: u8, hint: usize) -> Self {
        let sc2 = sc.min(2);
        let n = len_for(rng, sc2, hint);
        let mut astr = arrayvec::ArrayString::<16>::new();
        for _ in 0..(n % 17) {
            astr.push((b'a' + rng.below(26) as u8) as char);
        }
        Misc {
            path: std::path::PathBuf::from(format!("/tmp/{}", gen_string(rng, sc2, 0))),
            cow: std::borrow::Cow::Owned(gen_string(rng, sc2, 0)),
            bset: (0..n.min(40)).map(|i| format!("{}{}", gen_string(rng, 1, 0), i)).collect(),
            hset: (0..n.min(60)).map(|_| rng.next_u64() as u32).collect(),
            iset: (0..n.min(60)).map(|_| rng.next_u64() as u16).collect(),
            dq: (0..len_for(rng, sc, hint / 8)).map(|_| rng.next_u64() as u32).collect(),
            range: (rng.next_u64() as u32 / 2)..(u32::MAX / 2 + rng.next_u64() as u32 / 2),
            one: (rng.next_u64() as u8,),
            astr,
            rc: std::rc::Rc::new(rng.next_u64() as u8),
            refcell: std::cell::RefCell::new(rng.next_u64() as u16),
            cell: std::cell::Cell::new(rng.next_u64() as u8),
            atomic: std::sync::atomic::AtomicU32::new(rng.next_u64() as u32),
            when: chrono::DateTime::<chrono::Utc>::from_timestamp(rng.below(4_000_000_000) as i64, rng.below(1_000_000_000) as u32).unwrap_or_default(),
            last: (0..len_for(rng, sc2, 0).min(70)).map(|_| gen_string(rng, 2, 0)).collect(),
        }
    }
    fn walk(&self, w: &mut Walker) {
        w.collection("PathBuf", self.path.as_os_str().len(), 1);
        w.string("Cow<str>", self.cow.as_bytes());
        if w.collection("BTreeSet<String>", self.bset.len(), 8) {
            w.elements_touched += self.bset.iter().map(|s| s.len() as u64).sum::<u64>();
        }
        if w.collection("HashSet<u32>", self.hset.len(), 4) {
            w.elements_touched += self.hset.iter().count() as u64;
        }
        if w.collection("IndexSet<u16>", self.iset.len(), 2) {
            w.elements_touched += self.iset.iter().count() as u64;
        }
        if w.collection("VecDeque<u32>", self.dq.len(), 4) {
            w.elements_touched += self.dq.iter().fold(0u64, |a, b| a.wrapping_add(*b as u64)) & 1;
        }
        w.prim(8 + 1);
        if self.astr.len() > 16 {
            w.problem(format!("oversized:ArrayString<16> len {}", self.astr.len()));
        } else if std::str::from_utf8(self.astr.as_bytes()).is_err() {
            w.problem("invalid-utf8:ArrayString".to_string());
        }
        w.prim(1 + 2 + 1 + 4 + 12);
        if w.collection("VecDeque<String>", self.last.len(), 8) {
            for s in &self.last {
                w.string("String", s.as_bytes());
            }
        }
    }
}
/// heap / shared slice / boxed slice (ends in the boxed slice of strings)
#[derive(SavefileNoIntrospect)]
pub struct Misc2 {
    pub heap: std::collections::BinaryHeap<u16>,
    pub shared: Arc<[u32]>,
    pub packed_box: Box<[u16]>,
    pub tail: Box<[String]>,
}
impl Misc2 {
    fn key(&self) -> String {
        format!("{:?}|{:?}|{:?}|{:?}", self.heap.clone().into_sorted_vec(), self.shared, self.packed_box, self.tail)
    }
}
impl PartialEq for Misc2 {
    fn eq(&self, o: &Misc2) -> bool {
        self.key() == o.key()
    }
}
impl std::fmt::Debug for Misc2 {
    fn fmt(&self, f: &mut std::fmt::Formatter<'_>) -> std::fmt::Result {
        write!(f, "Misc2 {{ {} }}", self.key())
    }
}
impl ZooVal for Misc2 {
    const BYTES_ARE_CANONICAL: bool = false;
    fn gen(rng: &mut Rng, sc: u8, hint: usize) -> Self {
        let sc2 = sc.min(2);
        Misc2 {
            heap: (0..len_for(rng, sc2, 0)).map(|_| rng.next_u64() as u16).collect(),
            shared: (0..len_for(rng, sc, hint / 8)).map(|_| rng.next_u64() as u32).collect::<Vec<_>>().into(),
            packed_box: (0..len_for(rng, sc2, 0)).map(|_| rng.next_u64() as u16).collect::<Vec<_>>().into_boxed_slice(),
            tail: (0..len_for(rng, sc2, 0).min(70)).map(|_| gen_string(rng, 2, 0)).collect::<Vec<_>>().into_boxed_slice(),
        }
    }
    fn walk(&self, w: &mut Walker) {
        if w.collection("BinaryHeap<u16>", self.heap.len(), 2) {
            w.elements_touched += self.heap.iter().count() as u64;
        }
        if w.collection("Arc<[u32]>", self.shared.len(), 4) {
            w.elements_touched += self.shared.iter().fold(0u64, |a, b| a.wrapping_add(*b as u64)) & 1;
        }
        if w.collection("Box<[u16]>", self.packed_box.len(), 2) {
            w.elements_touched += self.packed_box.iter().fold(0u64, |a, b| a.wrapping_add(*b as u64)) & 1;
        }
        if w.collection("Box<[String]>", self.tail.len(), 8) {
            for s in self.tail.iter() {
                w.string("String", s.as_bytes());
            }
        }
    }
}

/// A value that ENDS in one long string (sizes cross the 4 KiB / 64 KiB thresholds a size-dependent read path
/// would use); nothing follows the string, so a short read of it is not caught by a later field.
#[derive(Savefile, Debug, PartialEq, Clone)]
pub struct Text {
    pub id: u32,
    pub tags: Vec<u8>,
    pub body: String,
}
impl ZooVal for Text {
    fn gen(rng: &mut Rng, sc: u8, hint: usize) -> Self {
        let n = match sc {
            0 => 0,
            1 => 1,
            2 => len_for(rng, 2, 0),
            3 => *rng.pick(&[4095usize, 4096, 4097, 5000, 8191, 8192, 8193, 12000, 65535, 65536, 65537, 70000]),
            _ => hint.max(1),
        };
        let mut body = String::with_capacity(n);
        let mut x = rng.next_u64();
        for _ in 0..n {
            x = x.wrapping_mul(6364136223846793005).wrapping_add(1442695040888963407);
            body.push((b'a' + ((x >> 33) % 26) as u8) as char);
        }
        let k = len_for(rng, sc.min(2), 0);
        Text { id: rng.next_u64() as u32, tags: rng.bytes(k), body }
    }
    fn walk(&self, w: &mut Walker) {
        w.prim(4);
        w.collection("Vec<u8>", self.tags.len(), 1);
        if w.string("String", self.body.as_bytes()) {
            w.elements_touched += self.body.len() as u64;
        }
    }
}

// ---------------------------------------------------------------------------------------------
// Containers and the object-safe subject interface
// ---------------------------------------------------------------------------------------------
#[derive(Clone, Copy, Debug, PartialEq, Eq, PartialOrd, Ord)]
pub enum Container {
    Plain,
    NoSchema,
    Compressed,
    EncPlain,
    EncCompressed,
}
impl Container {
    pub const ALL: [Container; 5] = [
        Container::Plain,
        Container::NoSchema,
        Container::Compressed,
        Container::EncPlain,
        Container::EncCompressed,
    ];
    pub fn name(self) -> &'static str {
        match self {
            Container::Plain => "plain",
            Container::NoSchema => "noschema",
            Container::Compressed => "compressed",
            Container::EncPlain => "encrypted-plain",
            Container::EncCompressed => "encrypted-compressed",
        }
    }
    pub fn from_name(s: &str) -> Container {
        for c in Container::ALL {
            if c.name() == s {
                return c;
            }
        }
        Container::Plain
    }
    pub fn encrypted(self) -> bool {
        matches!(self, Container::EncPlain | Container::EncCompressed)
    }
    pub fn compressed(self) -> bool {
        matches!(self, Container::Compressed | Container::EncCompressed)
    }
    /// containers with trailing framing whose loss may still yield the original value
    pub fn framed(self) -> bool {
        self.compressed()
    }
    pub fn wrappers(self) -> &'static str {
        match self {
            Container::Plain | Container::NoSchema => "none",
            Container::Compressed => "bzip2",
            Container::EncPlain => "crypto",
            Container::EncCompressed => "crypto+bzip2",
        }
    }
}

pub type Val = Box<dyn Any>;

pub trait Subject: Sync {
    fn name(&self) -> &'static str;
    fn gen(&self, rng: &mut Rng, sc: u8, hint: usize) -> Val;
    /// exactly what `save` / `save_noschema` / `save_compressed` / `save_encrypted_file` do, over `w`
    fn save(&self, v: &Val, w: &mut dyn DynWrite, c: Container, key: [u8; 32]) -> Result<(), SavefileError>;
    fn load(&self, r: &mut dyn DynRead, c: Container, key: [u8; 32]) -> Result<Val, SavefileError>;
    fn same(&self, a: &Val, b: &Val) -> bool;
    fn bare(&self, v: &Val) -> Vec<u8>;
    fn walk(&self, v: &Val, w: &mut Walker);
    fn save_encrypted_file(&self, v: &Val, path: &std::path::Path, compressed_hint: bool, password: &str) -> Result<(), SavefileError>;
    fn load_encrypted_file(&self, path: &std::path::Path, password: &str) -> Result<Val, SavefileError>;
    /// the `*_file` convenience wrappers of the library, on a real file
    fn save_real(&self, v: &Val, path: &std::path::Path, kind: RealKind, password: &str) -> Result<(), SavefileError>;
    fn load_real(&self, path: &std::path::Path, kind: RealKind, password: &str) -> Result<Val, SavefileError>;
    fn debug(&self, v: &Val) -> String;
    /// true for byte pipes without length framing, where a stream cut at a chunk boundary legitimately reads as a
    /// shorter stream: `loaded` is then only required to be a prefix of `original`
    fn prefix_is_legitimate(&self, _loaded: &Val, _original: &Val) -> bool {
        false
    }
}
/// which pair of `*_file` wrappers a real-file case goes through
#[derive(Clone, Copy, Debug, PartialEq)]
pub enum RealKind {
    /// save_encrypted_file / load_encrypted_file
    Encrypted,
    /// save_file / load_file
    Plain,
    /// save_file_noschema / load_file_noschema
    NoSchema,
    /// save_file_compressed / load_file
    Compressed,
    /// save_to_mem / load_from_mem (the bytes are parked in the file in between)
    Mem,
}
impl RealKind {
    pub fn name(self) -> &'static str {
        match self {
            RealKind::Encrypted => "encrypted",
            RealKind::Plain => "plain",
            RealKind::NoSchema => "noschema",
            RealKind::Compressed => "compressed",
            RealKind::Mem => "mem",
        }
    }
    pub fn from_config(cfg: &str) -> RealKind {
        if cfg.ends_with("-plain") {
            RealKind::Plain
        } else if cfg.ends_with("-noschema") {
            RealKind::NoSchema
        } else if cfg.ends_with("-compressed") {
            RealKind::Compressed
        } else if cfg.ends_with("-mem") {
            RealKind::Mem
        } else {
            RealKind::Encrypted
        }
    }
    pub fn of_container(c: Container) -> Option<RealKind> {
        match c {
            Container::Plain => Some(RealKind::Plain),
            Container::NoSchema => Some(RealKind::NoSchema),
            Container::Compressed => Some(RealKind::Compressed),
            Container::EncCompressed => Some(RealKind::Encrypted),
            Container::EncPlain => None,
        }
    }
}
/// `Write`/`Read` as trait objects that are also `Sized` wrappers can borrow
pub trait DynWrite: Write {}
impl<T: Write> DynWrite for T {}
pub trait DynRead: Read {}
impl<T: Read> DynRead for T {}

pub struct Subj<T>(pub &'static str, pub std::marker::PhantomData<fn() -> T>);

struct W<'a>(&'a mut dyn DynWrite);
impl Write for W<'_> {
    fn write(&mut self, buf: &[u8]) -> std::io::Result<usize> {
        self.0.write(buf)
    }
    fn flush(&mut self) -> std::io::Result<()> {
        self.0.flush()
    }
}
struct R<'a>(&'a mut dyn DynRead);
impl Read for R<'_> {
    fn read(&mut self, buf: &mut [u8]) -> std::io::Result<usize> {
        self.0.read(buf)
    }
}

impl<T> Subject for Subj<T>
where
    T: ZooVal + Serialize + Deserialize + WithSchema + PartialEq + std::fmt::Debug,
{
    fn name(&self) -> &'static str {
        self.0
    }
    fn gen(&self, rng: &mut Rng, sc: u8, hint: usize) -> Val {
        Box::new(T::gen(rng, sc, hint))
    }
    fn save(&self, v: &Val, w: &mut dyn DynWrite, c: Container, key: [u8; 32]) -> Result<(), SavefileError> {
        let v: &T = v.downcast_ref::<T>().expect("type");
        let mut w = W(w);
        match c {
            Container::Plain => savefile::save(&mut w, T::VERSION, v),
            Container::NoSchema => savefile::save_noschema(&mut w, T::VERSION, v),
            Container::Compressed => savefile::save_compressed(&mut w, T::VERSION, v),
            Container::EncPlain | Container::EncCompressed => {
                // the body of save_encrypted_file, over our device instead of a File
                let mut writer = CryptoWriter::new(&mut w, key)?;
                Serializer::<CryptoWriter>::save::<T>(&mut writer, T::VERSION, v, c == Container::EncCompressed)?;
                writer.flush()?;
                Ok(())
            }
        }
    }
    fn load(&self, r: &mut dyn DynRead, c: Container, key: [u8; 32]) -> Result<Val, SavefileError> {
        let mut r = R(r);
        let v: T = match c {
            Container::Plain | Container::Compressed => savefile::load::<T>(&mut r, T::VERSION)?,
            Container::NoSchema => savefile::load_noschema::<T>(&mut r, T::VERSION)?,
            Container::EncPlain | Container::EncCompressed => {
                // the body of load_encrypted_file (with `?` where it has unwrap: the unwrap is
                // exercised separately through the real function on a real file)
                let mut reader = CryptoReader::new(&mut r, key)?;
                Deserializer::<CryptoReader>::load::<T>(&mut reader, T::VERSION)?
            }
        };
        Ok(Box::new(v))
    }
    fn same(&self, a: &Val, b: &Val) -> bool {
        let a: &T = a.downcast_ref::<T>().expect("type");
        let b: &T = b.downcast_ref::<T>().expect("type");
        a == b && (!T::BYTES_ARE_CANONICAL || self.bare_t(a) == self.bare_t(b))
    }
    fn bare(&self, v: &Val) -> Vec<u8> {
        self.bare_t(v.downcast_ref::<T>().expect("type"))
    }
    fn walk(&self, v: &Val, w: &mut Walker) {
        v.downcast_ref::<T>().expect("type").walk(w)
    }
    fn save_encrypted_file(&self, v: &Val, path: &std::path::Path, _c: bool, password: &str) -> Result<(), SavefileError> {
        savefile::save_encrypted_file(path, T::VERSION, v.downcast_ref::<T>().expect("type"), password)
    }
    fn load_encrypted_file(&self, path: &std::path::Path, password: &str) -> Result<Val, SavefileError> {
        Ok(Box::new(savefile::load_encrypted_file::<T, _>(path, T::VERSION, password)?))
    }
    fn save_real(&self, v: &Val, path: &std::path::Path, kind: RealKind, password: &str) -> Result<(), SavefileError> {
        let v: &T = v.downcast_ref::<T>().expect("type");
        match kind {
            RealKind::Encrypted => savefile::save_encrypted_file(path, T::VERSION, v, password),
            RealKind::Plain => savefile::save_file(path, T::VERSION, v),
            RealKind::NoSchema => savefile::save_file_noschema(path, T::VERSION, v),
            RealKind::Compressed => savefile::save_file_compressed(path, T::VERSION, v),
            RealKind::Mem => Ok(std::fs::write(path, savefile::save_to_mem(T::VERSION, v)?)?),
        }
    }
    fn load_real(&self, path: &std::path::Path, kind: RealKind, password: &str) -> Result<Val, SavefileError> {
        Ok(Box::new(match kind {
            RealKind::Encrypted => savefile::load_encrypted_file::<T, _>(path, T::VERSION, password)?,
            RealKind::Plain | RealKind::Compressed => savefile::load_file::<T, _>(path, T::VERSION)?,
            RealKind::NoSchema => savefile::load_file_noschema::<T, _>(path, T::VERSION)?,
            RealKind::Mem => savefile::load_from_mem::<T>(&std::fs::read(path)?, T::VERSION)?,
        }))
    }
    fn debug(&self, v: &Val) -> String {
        let s = format!("{:?}", v.downcast_ref::<T>().expect("type"));
        if s.len() > 300 {
            let mut cut = 300;
            while !s.is_char_boundary(cut) {
                cut -= 1;
            }
            format!("{}…(+{} chars)", &s[..cut], s.len() - cut)
        } else {
            s
        }
    }
}
impl<T: Serialize + ZooVal> Subj<T> {
    fn bare_t(&self, v: &T) -> Vec<u8> {
        let mut out = Vec::new();
        let _ = Serializer::bare_serialize(&mut out, T::VERSION, v);
        out
    }
}

/// CryptoWriter / CryptoReader used directly as a byte pipe (they are public `Write` / `Read` wrappers): the
/// caller writes in pieces, flushes now and then and - as callers customarily do - retries a flush that
/// was interrupted; the reader pulls with its own buffer sizes. Only meaningful for the encrypted-plain container.
#[derive(Debug, PartialEq, Clone)]
pub struct PipeVal {
    pub data: Vec<u8>,
    pub pieces: Vec<usize>,
    pub flush_every: usize,
    pub read_sizes: Vec<usize>,
}
pub struct PipeSubj;
fn flush_retrying(w: &mut impl Write) -> std::io::Result<()> {
    let mut tries = 0;
    loop {
        match w.flush() {
            Err(e) if e.kind() == std::io::ErrorKind::Interrupted && tries < 4 => tries += 1,
            other => return other,
        }
    }
}
impl Subject for PipeSubj {
    fn name(&self) -> &'static str {
        "CryptoPipe"
    }
    fn gen(&self, rng: &mut Rng, sc: u8, hint: usize) -> Val {
        let n = match sc {
            0 => 0,
            1 => 1,
            2 => len_for(rng, 2, 0) * 3,
            3 => rng.range(200, 5000) as usize,
            _ => hint.max(1),
        };
        let k = rng.range(1, 6) as usize;
        Box::new(PipeVal {
            data: rng.bytes(n),
            pieces: (0..k).map(|_| *rng.pick(&[1usize, 2, 7, 16, 17, 60, 61, 62, 64, 100, 1000, 5000])).collect(),
            flush_every: rng.range(1, 5) as usize,
            read_sizes: (0..k).map(|_| *rng.pick(&[1usize, 3, 8, 16, 17, 61, 64, 255, 4096])).collect(),
        })
    }
    fn save(&self, v: &Val, w: &mut dyn DynWrite, _c: Container, key: [u8; 32]) -> Result<(), SavefileError> {
        let v: &PipeVal = v.downcast_ref::<PipeVal>().expect("type");
        let mut w = W(w);
        let mut cw = CryptoWriter::new(&mut w, key)?;
        let mut off = 0;
        let mut i = 0;
        while off < v.data.len() {
            let n = v.pieces[i % v.pieces.len()].min(v.data.len() - off);
            cw.write_all(&v.data[off..off + n])?;
            off += n;
            i += 1;
            if i % v.flush_every == 0 {
                flush_retrying(&mut cw)?;
            }
        }
        flush_retrying(&mut cw)?;
        Ok(())
    }
    fn load(&self, r: &mut dyn DynRead, _c: Container, key: [u8; 32]) -> Result<Val, SavefileError> {
        let mut r = R(r);
        let mut cr = CryptoReader::new(&mut r, key)?;
        let mut data = Vec::new();
        let sizes = [1usize, 3, 8, 16, 17, 61, 64, 255, 4096];
        let mut i = 0;
        loop {
            let mut buf = vec![0u8; sizes[i % sizes.len()]];
            i += 1;
            let n = loop {
                match cr.read(&mut buf) {
                    Err(e) if e.kind() == std::io::ErrorKind::Interrupted => continue,
                    other => break other?,
                }
            };
            if n == 0 {
                break;
            }
            data.extend_from_slice(&buf[..n]);
            if data.len() > (64 << 20) {
                return Err(SavefileError::GeneralError { msg: "pipe reader produced more than 64 MiB".into() });
            }
        }
        Ok(Box::new(PipeVal { data, pieces: vec![], flush_every: 1, read_sizes: vec![] }))
    }
    fn same(&self, a: &Val, b: &Val) -> bool {
        a.downcast_ref::<PipeVal>().expect("type").data == b.downcast_ref::<PipeVal>().expect("type").data
    }
    fn bare(&self, v: &Val) -> Vec<u8> {
        v.downcast_ref::<PipeVal>().expect("type").data.clone()
    }
    fn walk(&self, v: &Val, w: &mut Walker) {
        w.collection("pipe bytes", v.downcast_ref::<PipeVal>().expect("type").data.len(), 1);
    }
    fn save_encrypted_file(&self, _v: &Val, _path: &std::path::Path, _c: bool, _password: &str) -> Result<(), SavefileError> {
        Err(SavefileError::GeneralError { msg: "CryptoPipe has no file form".into() })
    }
    fn load_encrypted_file(&self, _path: &std::path::Path, _password: &str) -> Result<Val, SavefileError> {
        Err(SavefileError::GeneralError { msg: "CryptoPipe has no file form".into() })
    }
    fn save_real(&self, _v: &Val, _path: &std::path::Path, _kind: RealKind, _password: &str) -> Result<(), SavefileError> {
        Err(SavefileError::GeneralError { msg: "CryptoPipe has no file form".into() })
    }
    fn load_real(&self, _path: &std::path::Path, _kind: RealKind, _password: &str) -> Result<Val, SavefileError> {
        Err(SavefileError::GeneralError { msg: "CryptoPipe has no file form".into() })
    }
    fn debug(&self, v: &Val) -> String {
        format!("PipeVal {{ {} bytes }}", v.downcast_ref::<PipeVal>().expect("type").data.len())
    }
    fn prefix_is_legitimate(&self, loaded: &Val, original: &Val) -> bool {
        let l = &loaded.downcast_ref::<PipeVal>().expect("type").data;
        let o = &original.downcast_ref::<PipeVal>().expect("type").data;
        l.len() <= o.len() && o[..l.len()] == l[..]
    }
}

// ---------------------------------------------------------------------------------------------
// "Upgrade": a file written by an OLD build (data version 0, the old struct) and read by a NEW build (version 1):
// removed fields, fields added with a default, a field whose type changed (converted on load), enum variants
// with removed fields / added variants, versioned elements inside a Vec. The versioned read path is code of its
// own (per-field version tests, Removed<T> skipping, conversions) and must obey C06/C07/C08/C14 like any other.
// ---------------------------------------------------------------------------------------------
#[derive(Savefile, Debug, PartialEq, Clone)]
pub struct UpOldItem {
    pub id: u32,
    pub label: String,
    pub weight: u16,
}
#[derive(Savefile, Debug, PartialEq, Clone)]
pub struct UpNewItem {
    pub id: u32,
    #[savefile_versions = "0..0"]
    pub label: Removed<String>,
    pub weight: u16,
    #[savefile_versions = "1.."]
    #[savefile_default_val = "7"]
    pub extra: u8,
}
#[derive(Savefile, Debug, PartialEq, Clone)]
pub enum UpOldKind {
    A,
    B(u32),
    C { x: u16, y: u16 },
}
#[derive(Savefile, Debug, PartialEq, Clone)]
pub enum UpNewKind {
    A,
    B(u32),
    C {
        x: u16,
        #[savefile_versions = "0..0"]
        y: Removed<u16>,
    },
    #[savefile_versions = "1.."]
    D(String),
}
#[derive(Savefile, Debug, PartialEq, Clone)]
pub struct UpNum {
    pub v: u32,
}
pub fn up_parse(s: String) -> UpNum {
    UpNum { v: s.parse().unwrap_or(0) }
}
#[derive(Savefile, Debug, PartialEq, Clone)]
pub struct UpOld {
    pub a: String,
    pub b: Vec<String>,
    pub c: u64,
    pub n: String,
    pub items: Vec<UpOldItem>,
    pub kind: UpOldKind,
    pub tail: Vec<u32>,
}
#[derive(Savefile, Debug, PartialEq, Clone)]
pub struct UpNew {
    pub a: String,
    #[savefile_versions = "0..0"]
    pub b: Removed<Vec<String>>,
    #[savefile_default_val = "123"]
    #[savefile_versions = "1.."]
    pub newb: u32,
    pub c: u64,
    #[savefile_versions_as = "0..0:up_parse:String"]
    #[savefile_versions = "1.."]
    pub n: UpNum,
    pub items: Vec<UpNewItem>,
    pub kind: UpNewKind,
    pub tail: Vec<u32>,
}
pub fn upgrade(o: &UpOld) -> UpNew {
    UpNew {
        a: o.a.clone(),
        b: Removed::new(),
        newb: 123,
        c: o.c,
        n: up_parse(o.n.clone()),
        items: o.items.iter().map(|i| UpNewItem { id: i.id, label: Removed::new(), weight: i.weight, extra: 7 }).collect(),
        kind: match &o.kind {
            UpOldKind::A => UpNewKind::A,
            UpOldKind::B(x) => UpNewKind::B(*x),
            UpOldKind::C { x, .. } => UpNewKind::C { x: *x, y: Removed::new() },
        },
        tail: o.tail.clone(),
    }
}
/// what the old build wrote (absent for values that came out of a load) and what the new build must see
pub struct UpVal {
    pub old: Option<UpOld>,
    pub new: UpNew,
}
pub struct UpSubj;
impl Subject for UpSubj {
    fn name(&self) -> &'static str {
        "Upgrade"
    }
    fn gen(&self, rng: &mut Rng, sc: u8, hint: usize) -> Val {
        let n = len_for(rng, sc, hint / 24).min(400);
        let old = UpOld {
            a: gen_string(rng, sc, hint),
            b: (0..len_for(rng, sc.min(2), 0).min(9)).map(|_| gen_string(rng, sc.min(2), 0)).collect(),
            c: rng.next_u64(),
            n: if rng.chance(1, 6) { gen_string(rng, 1, 0) } else { format!("{}", rng.next_u64() as u32) },
            items: (0..n).map(|_| UpOldItem { id: rng.next_u64() as u32, label: gen_string(rng, sc.min(2), 0), weight: rng.next_u64() as u16 }).collect(),
            kind: match rng.below(3) {
                0 => UpOldKind::A,
                1 => UpOldKind::B(rng.next_u64() as u32),
                _ => UpOldKind::C { x: rng.next_u64() as u16, y: rng.next_u64() as u16 },
            },
            tail: (0..len_for(rng, sc, hint / 8)).map(|_| rng.next_u64() as u32).collect(),
        };
        let new = upgrade(&old);
        Box::new(UpVal { old: Some(old), new })
    }
    fn save(&self, v: &Val, w: &mut dyn DynWrite, c: Container, key: [u8; 32]) -> Result<(), SavefileError> {
        let v: &UpVal = v.downcast_ref::<UpVal>().expect("type");
        let old = v.old.as_ref().expect("only generated values are saved");
        let mut w = W(w);
        match c {
            Container::Plain => savefile::save(&mut w, 0, old),
            Container::NoSchema => savefile::save_noschema(&mut w, 0, old),
            Container::Compressed => savefile::save_compressed(&mut w, 0, old),
            Container::EncPlain | Container::EncCompressed => {
                let mut writer = CryptoWriter::new(&mut w, key)?;
                Serializer::<CryptoWriter>::save::<UpOld>(&mut writer, 0, old, c == Container::EncCompressed)?;
                writer.flush()?;
                Ok(())
            }
        }
    }
    fn load(&self, r: &mut dyn DynRead, c: Container, key: [u8; 32]) -> Result<Val, SavefileError> {
        let mut r = R(r);
        let new: UpNew = match c {
            Container::Plain | Container::Compressed => savefile::load::<UpNew>(&mut r, 1)?,
            Container::NoSchema => savefile::load_noschema::<UpNew>(&mut r, 1)?,
            Container::EncPlain | Container::EncCompressed => {
                let mut reader = CryptoReader::new(&mut r, key)?;
                Deserializer::<CryptoReader>::load::<UpNew>(&mut reader, 1)?
            }
        };
        Ok(Box::new(UpVal { old: None, new }))
    }
    fn same(&self, a: &Val, b: &Val) -> bool {
        a.downcast_ref::<UpVal>().expect("type").new == b.downcast_ref::<UpVal>().expect("type").new
    }
    fn bare(&self, v: &Val) -> Vec<u8> {
        let mut out = Vec::new();
        let _ = Serializer::bare_serialize(&mut out, 1, &v.downcast_ref::<UpVal>().expect("type").new);
        out
    }
    fn walk(&self, v: &Val, w: &mut Walker) {
        let n = &v.downcast_ref::<UpVal>().expect("type").new;
        if w.string("String", n.a.as_bytes()) {
            w.elements_touched += n.a.chars().count() as u64;
        }
        w.prim(8);
        if w.collection("Vec<UpNewItem>", n.items.len(), 6 + 8) {
            let mut acc = 0u64;
            for i in &n.items {
                acc = acc.wrapping_add(i.id as u64 + i.weight as u64 + i.extra as u64);
            }
            std::hint::black_box(acc);
            w.elements_touched += n.items.len() as u64;
        }
        if let UpNewKind::D(s) = &n.kind {
            w.string("String", s.as_bytes());
        }
        if w.collection("Vec<u32>", n.tail.len(), 4) {
            let mut acc = 0u64;
            for x in &n.tail {
                acc = acc.wrapping_add(*x as u64);
            }
            std::hint::black_box(acc);
            w.elements_touched += n.tail.len() as u64;
        }
    }
    fn save_encrypted_file(&self, v: &Val, path: &std::path::Path, _c: bool, password: &str) -> Result<(), SavefileError> {
        savefile::save_encrypted_file(path, 0, v.downcast_ref::<UpVal>().expect("type").old.as_ref().expect("generated"), password)
    }
    fn load_encrypted_file(&self, path: &std::path::Path, password: &str) -> Result<Val, SavefileError> {
        Ok(Box::new(UpVal { old: None, new: savefile::load_encrypted_file::<UpNew, _>(path, 1, password)? }))
    }
    fn save_real(&self, v: &Val, path: &std::path::Path, kind: RealKind, password: &str) -> Result<(), SavefileError> {
        let old = v.downcast_ref::<UpVal>().expect("type").old.as_ref().expect("generated");
        match kind {
            RealKind::Encrypted => savefile::save_encrypted_file(path, 0, old, password),
            RealKind::Plain => savefile::save_file(path, 0, old),
            RealKind::NoSchema => savefile::save_file_noschema(path, 0, old),
            RealKind::Compressed => savefile::save_file_compressed(path, 0, old),
            RealKind::Mem => Ok(std::fs::write(path, savefile::save_to_mem(0, old)?)?),
        }
    }
    fn load_real(&self, path: &std::path::Path, kind: RealKind, password: &str) -> Result<Val, SavefileError> {
        let new = match kind {
            RealKind::Encrypted => savefile::load_encrypted_file::<UpNew, _>(path, 1, password)?,
            RealKind::Plain | RealKind::Compressed => savefile::load_file::<UpNew, _>(path, 1)?,
            RealKind::NoSchema => savefile::load_file_noschema::<UpNew, _>(path, 1)?,
            RealKind::Mem => savefile::load_from_mem::<UpNew>(&std::fs::read(path)?, 1)?,
        };
        Ok(Box::new(UpVal { old: None, new }))
    }
    fn debug(&self, v: &Val) -> String {
        let s = format!("{:?}", v.downcast_ref::<UpVal>().expect("type").new);
        s.chars().take(300).collect()
    }
}

// ---------------------------------------------------------------------------------------------
// "VerRec": a CURRENT-version file (version 1 written, version 1 read) of a struct that carries version
// attributes; it ENDS in a field that was added in version 1 and has an explicit default (a truncated file must
// not be "repaired" with the default), preceded by a removed field (absent from version-1 files).
// ---------------------------------------------------------------------------------------------
fn verrec_level_default() -> u16 {
    9
}
#[derive(Savefile, Debug, PartialEq, Clone)]
pub struct VerRec {
    pub name: String,
    pub points: Vec<u32>,
    #[savefile_versions = "0..0"]
    pub legacy: Removed<u64>,
    #[savefile_versions = "1.."]
    #[savefile_default_fn = "verrec_level_default"]
    pub level: u16,
    pub flag: bool,
    #[savefile_versions = "1.."]
    #[savefile_default_val = "7"]
    pub retries: u32,
}
impl ZooVal for VerRec {
    const VERSION: u32 = 1;
    fn gen(rng: &mut Rng, sc: u8, hint: usize) -> Self {
        VerRec {
            name: gen_string(rng, sc, hint),
            points: (0..len_for(rng, sc, hint / 4)).map(|_| rng.next_u64() as u32).collect(),
            legacy: Removed::new(),
            level: rng.next_u64() as u16,
            flag: rng.chance(1, 2),
            // never the default itself: a default slipped in for a missing field must differ from the original
            retries: 8 + (rng.next_u64() as u32 >> 1),
        }
    }
    fn walk(&self, w: &mut Walker) {
        if w.string("String", self.name.as_bytes()) {
            w.elements_touched += self.name.chars().count() as u64;
        }
        if w.collection("Vec<u32>", self.points.len(), 4) {
            let mut acc = 0u64;
            for x in &self.points {
                acc = acc.wrapping_add(*x as u64);
            }
            std::hint::black_box(acc);
        }
        w.prim(2 + 1 + 4);
        let b = unsafe { *(&self.flag as *const bool as *const u8) };
        if b > 1 {
            w.problem(format!("invalid-bool:{}", b));
        }
    }
}
// ---------------------------------------------------------------------------------------------
// "Names": identifiers that are long and not ASCII. The schema section stores every struct, field and variant
// name; code that abbreviates, compares or formats them must cope with multi-byte characters at every byte
// offset (the two field names below have their character boundaries at odd resp. even offsets only).
// ---------------------------------------------------------------------------------------------
#[allow(non_snake_case, non_camel_case_types)]
#[derive(Savefile, Debug, PartialEq, Clone)]
pub enum Färg_åäöåäöåäöåäöåäöåäöåäöåäöåäöåäöåäöåäöåäöåäöåäöåäöåäöåäöåäöåäöåäö {
    Röd_ÅÅÅÅÅÅÅÅÅÅÅÅÅÅÅÅÅÅÅÅÅÅÅÅÅÅÅÅÅÅÅÅÅÅÅÅÅÅÅÅÅÅÅÅÅÅÅÅÅÅÅÅÅÅÅÅÅÅÅÅÅÅÅÅÅÅÅÅÅÅÅÅÅÅ,
    xGrön_ああああああああああああああああああああああああああああああああああああああああああああああああああああ(u16),
}
#[allow(non_snake_case)]
#[derive(Savefile, Debug, PartialEq, Clone)]
pub struct Names {
    pub ååååååååååååååååååååååååååååååååååååååååååååååååååååååååååååååååååååååååååå: u32,
    pub xååååååååååååååååååååååååååååååååååååååååååååååååååååååååååååååååååååååååååå: Vec<u16>,
    pub färg: Färg_åäöåäöåäöåäöåäöåäöåäöåäöåäöåäöåäöåäöåäöåäöåäöåäöåäöåäöåäöåäöåäö,
    pub plain: u8,
}
impl ZooVal for Names {
    fn gen(rng: &mut Rng, sc: u8, hint: usize) -> Self {
        Names {
            ååååååååååååååååååååååååååååååååååååååååååååååååååååååååååååååååååååååååååå: rng.next_u64() as u32,
            xååååååååååååååååååååååååååååååååååååååååååååååååååååååååååååååååååååååååååå: (0..len_for(rng, sc, hint / 2)).map(|_| rng.next_u64() as u16).collect(),
            färg: if rng.chance(1, 2) {
                Färg_åäöåäöåäöåäöåäöåäöåäöåäöåäöåäöåäöåäöåäöåäöåäöåäöåäöåäöåäöåäöåäö::Röd_ÅÅÅÅÅÅÅÅÅÅÅÅÅÅÅÅÅÅÅÅÅÅÅÅÅÅÅÅÅÅÅÅÅÅÅÅÅÅÅÅÅÅÅÅÅÅÅÅÅÅÅÅÅÅÅÅÅÅÅÅÅÅÅÅÅÅÅÅÅÅÅÅÅÅ
            } else {
                Färg_åäöåäöåäöåäöåäöåäöåäöåäöåäöåäöåäöåäöåäöåäöåäöåäöåäöåäöåäöåäöåäö::xGrön_ああああああああああああああああああああああああああああああああああああああああああああああああああああ(rng.next_u64() as u16)
            },
            plain: rng.next_u64() as u8,
        }
    }
    fn walk(&self, w: &mut Walker) {
        w.prim(4);
        if w.collection("Vec<u16>", self.xååååååååååååååååååååååååååååååååååååååååååååååååååååååååååååååååååååååååååå.len(), 2) {
            let mut acc = 0u64;
            for x in &self.xååååååååååååååååååååååååååååååååååååååååååååååååååååååååååååååååååååååååååå {
                acc = acc.wrapping_add(*x as u64);
            }
            std::hint::black_box(acc);
        }
        w.prim(2);
    }
}

// ---------------------------------------------------------------------------------------------
// "Tail*" family: a small value that ENDS in one leaf type with a hand-written, multi-part deserializer. Whatever
// a deserializer does when the input ends in the middle of ITS bytes (return an error - or quietly fill in a default)
// is only visible when nothing follows it; and the last bytes are never zero, so a filled-in zero is another value.
// ---------------------------------------------------------------------------------------------
macro_rules! tail_subject {
    ($name:ident, $t:ty, |$rng:ident| $gen:expr) => {
        #[derive(Savefile, Debug, PartialEq)]
        pub struct $name {
            pub head: u32,
            pub tail: $t,
        }
        impl ZooVal for $name {
            fn gen($rng: &mut Rng, _sc: u8, _hint: usize) -> Self {
                $name { head: $rng.next_u64() as u32, tail: $gen }
            }
            fn walk(&self, w: &mut Walker) {
                w.prim(5);
            }
        }
    };
}
fn nz32(rng: &mut Rng) -> u32 {
    (rng.next_u64() as u32) | 0x0101_0101
}
fn nz64(rng: &mut Rng) -> u64 {
    rng.next_u64() | 0x0101_0101_0101_0101
}
tail_subject!(TailSock, SocketAddr, |rng| if rng.chance(1, 3) {
    SocketAddr::V4(std::net::SocketAddrV4::new(Ipv4Addr::new(10, 1, 2, 3), (nz32(rng) as u16) | 0x0101))
} else {
    SocketAddr::V6(std::net::SocketAddrV6::new(Ipv6Addr::new(0xfe80, 0, 0, 0, 0x1ff, 0xfe23, 0x4567, 0x890a), 4711, nz32(rng), nz32(rng)))
});
tail_subject!(TailIp, IpAddr, |rng| IpAddr::V6(Ipv6Addr::new(0xfe80, 1, 2, 3, 4, 5, 6, (nz32(rng) as u16) | 0x0101)));
tail_subject!(TailTime, SystemTime, |rng| if rng.chance(1, 2) {
    SystemTime::UNIX_EPOCH + Duration::new(nz32(rng) as u64, 1 + rng.below(999_999_998) as u32)
} else {
    SystemTime::UNIX_EPOCH - Duration::new((nz32(rng) >> 4) as u64, 1 + rng.below(999_999_998) as u32)
});
tail_subject!(TailDur, Duration, |rng| Duration::new(nz64(rng) >> 8, 0x0101_01 + rng.below(900_000_000) as u32));
tail_subject!(TailRange, std::ops::Range<u32>, |rng| nz32(rng)..nz32(rng));
tail_subject!(TailTup, (u8, u32, u64), |rng| ((nz32(rng) as u8) | 1, nz32(rng), nz64(rng)));
tail_subject!(TailOpt, Option<Result<u32, u16>>, |rng| Some(if rng.chance(1, 2) { Ok(nz32(rng)) } else { Err((nz32(rng) as u16) | 0x0101) }));
tail_subject!(TailU128, u128, |rng| ((nz64(rng) as u128) << 64) | nz64(rng) as u128);
tail_subject!(TailChrono, chrono::DateTime<chrono::Utc>, |rng| chrono::DateTime::<chrono::Utc>::from_timestamp_nanos(((nz64(rng) >> 2) as i64) * if rng.chance(1, 2) { 1 } else { -1 }));
tail_subject!(TailBox, Box<(u32, u64)>, |rng| Box::new((nz32(rng), nz64(rng))));
tail_subject!(TailCell, std::cell::RefCell<(u16, u64)>, |rng| std::cell::RefCell::new(((nz32(rng) as u16) | 0x0101, nz64(rng))));
tail_subject!(TailF64, f64, |rng| f64::from_bits(nz64(rng) & 0x7fef_ffff_ffff_ffff));

// "VerGap": written and read at version 2; one field was a `u8` in version 1 only and did not exist in version 0 (a
// gap below the `savefile_versions_as` range): a header whose version field is damaged to 0 or 1 makes the loader
// take the per-version arms that no current-version file ever reaches.
#[derive(Savefile, Debug, PartialEq, Clone)]
pub struct VerGap {
    pub a: u32,
    #[savefile_versions_as = "1..1:u8"]
    #[savefile_versions = "2.."]
    pub b: u16,
    #[savefile_versions = "1.."]
    pub c: u8,
    pub tail: Vec<u16>,
}
impl ZooVal for VerGap {
    const VERSION: u32 = 2;
    fn gen(rng: &mut Rng, sc: u8, hint: usize) -> Self {
        VerGap { a: rng.next_u64() as u32, b: rng.next_u64() as u16, c: rng.next_u64() as u8, tail: (0..len_for(rng, sc.min(2), hint / 4)).map(|_| rng.next_u64() as u16).collect() }
    }
    fn walk(&self, w: &mut Walker) {
        w.prim(4);
        if w.collection("Vec<u16>", self.tail.len(), 2) {
            let mut acc = 0u64;
            for x in &self.tail {
                acc = acc.wrapping_add(*x as u64);
            }
            std::hint::black_box(acc);
        }
    }
}

macro_rules! subj {
    ($t:ty, $n:expr) => {
        &Subj::<$t>($n, std::marker::PhantomData) as &dyn Subject
    };
}

pub fn subjects() -> Vec<&'static dyn Subject> {
    vec![
        subj!(RecSmall, "RecSmall"),
        subj!(PackedVec, "PackedVec"),
        subj!(Prims, "Prims"),
        subj!(Shapes, "Shapes"),
        subj!(Maps, "Maps"),
        subj!(Shared, "Shared"),
        subj!(NetTime, "NetTime"),
        subj!(Bits, "Bits"),
        subj!(Smalls, "Smalls"),
        subj!(BigBlob, "BigBlob"),
        subj!(Strings, "Strings"),
        subj!(Text, "Text"),
        subj!(BitsLast, "BitsLast"),
        subj!(PackedLast, "PackedLast"),
        subj!(ArrLast, "ArrLast"),
        subj!(Misc, "Misc"),
        subj!(Misc2, "Misc2"),
        &PipeSubj as &dyn Subject,
        &UpSubj as &dyn Subject,
        subj!(VerRec, "VerRec"),
        subj!(Names, "Names"),
        subj!(VerGap, "VerGap"),
        subj!(TailSock, "TailSock"),
        subj!(TailIp, "TailIp"),
        subj!(TailTime, "TailTime"),
        subj!(TailDur, "TailDur"),
        subj!(TailRange, "TailRange"),
        subj!(TailTup, "TailTup"),
        subj!(TailOpt, "TailOpt"),
        subj!(TailU128, "TailU128"),
        subj!(TailChrono, "TailChrono"),
        subj!(TailBox, "TailBox"),
        subj!(TailCell, "TailCell"),
        subj!(TailF64, "TailF64"),
    ]
}
pub fn subject(name: &str) -> &'static dyn Subject {
    for s in subjects() {
        if s.name() == name {
            return s;
        }
    }
    subjects()[0]
}

/// facts about the zoo that the evidence reports (which bulk paths are actually live)
pub fn packed_facts() -> Vec<(&'static str, bool)> {
    unsafe {
        vec![
            ("PackedPt", <PackedPt as Packed>::repr_c_optimization_safe(0).is_yes()),
            ("E8", <E8 as Packed>::repr_c_optimization_safe(0).is_yes()),
            ("bool", <bool as Packed>::repr_c_optimization_safe(0).is_yes()),
            ("char", <char as Packed>::repr_c_optimization_safe(0).is_yes()),
            ("u16", <u16 as Packed>::repr_c_optimization_safe(0).is_yes()),
            ("u64", <u64 as Packed>::repr_c_optimization_safe(0).is_yes()),
        ]
    }
}
