//! The simulator-owned allocator. Requests of `limit` bytes or more are refused (an injected allocation
//! failure): while a guard is armed the evaluation in flight is abandoned via longjmp (see csrc/jmp.c),
//! otherwise null is returned and Rust aborts as usual. Everything else goes to the system allocator.
//! The limit is far above anything a legitimate load in this harness needs, so a refusal always means
//! "the damaged input declared an absurd length"; the decision depends on the request size only, never on
//! the state of the machine, so it replays exactly.
use std::alloc::{GlobalAlloc, Layout, System};
use std::sync::atomic::{AtomicUsize, Ordering};

pub struct SimAlloc;
pub static LIMIT: AtomicUsize = AtomicUsize::new(usize::MAX);
pub static LAST_REFUSED: AtomicUsize = AtomicUsize::new(0);
pub static REFUSALS: AtomicUsize = AtomicUsize::new(0);
/// largest single request seen while a limit was armed (reset by the caller); used to select the plans that the
/// Miri pass can execute (Miri has no way to survive an absurd allocation)
pub static MAX_REQ: AtomicUsize = AtomicUsize::new(0);

extern "C" {
    fn simio_run_guarded(f: extern "C" fn(*mut std::ffi::c_void), arg: *mut std::ffi::c_void) -> i32;
    fn simio_bail() -> i32;
}

#[inline]
unsafe fn refuse(size: usize) -> *mut u8 {
    LAST_REFUSED.store(size, Ordering::Relaxed);
    REFUSALS.fetch_add(1, Ordering::Relaxed);
    simio_bail(); // does not return while a guard is armed
    std::ptr::null_mut()
}
unsafe impl GlobalAlloc for SimAlloc {
    unsafe fn alloc(&self, layout: Layout) -> *mut u8 {
        let lim = LIMIT.load(Ordering::Relaxed);
        if lim != usize::MAX {
            MAX_REQ.fetch_max(layout.size(), Ordering::Relaxed);
        }
        if layout.size() >= lim {
            return refuse(layout.size());
        }
        System.alloc(layout)
    }
    unsafe fn alloc_zeroed(&self, layout: Layout) -> *mut u8 {
        let lim = LIMIT.load(Ordering::Relaxed);
        if lim != usize::MAX {
            MAX_REQ.fetch_max(layout.size(), Ordering::Relaxed);
        }
        if layout.size() >= lim {
            return refuse(layout.size());
        }
        System.alloc_zeroed(layout)
    }
    unsafe fn dealloc(&self, ptr: *mut u8, layout: Layout) {
        System.dealloc(ptr, layout)
    }
    unsafe fn realloc(&self, ptr: *mut u8, layout: Layout, new_size: usize) -> *mut u8 {
        let lim = LIMIT.load(Ordering::Relaxed);
        if lim != usize::MAX {
            MAX_REQ.fetch_max(new_size, Ordering::Relaxed);
        }
        if new_size >= lim {
            return refuse(new_size);
        }
        System.realloc(ptr, layout, new_size)
    }
}

extern "C" fn trampoline(arg: *mut std::ffi::c_void) {
    let f: &mut &mut dyn FnMut() = unsafe { &mut *(arg as *mut &mut dyn FnMut()) };
    // a panic must not cross the C frame
    let _ = std::panic::catch_unwind(std::panic::AssertUnwindSafe(|| f()));
}
/// Run `f` with allocation refusals armed. Returns Some(size) if an allocation of `size` bytes was refused
/// and `f` was abandoned.
#[cfg(miri)]
pub fn with_alloc_limit(_limit: usize, mut f: impl FnMut()) -> Option<usize> {
    // under Miri there is no C shim and no simulated allocator: the plans executed there were selected natively
    // as never asking for more than a few MiB
    f();
    None
}
#[cfg(not(miri))]
pub fn with_alloc_limit(limit: usize, mut f: impl FnMut()) -> Option<usize> {
    let mut dynf: &mut dyn FnMut() = &mut f;
    let old = LIMIT.swap(limit, Ordering::Relaxed);
    let r = unsafe { simio_run_guarded(trampoline, &mut dynf as *mut &mut dyn FnMut() as *mut std::ffi::c_void) };
    LIMIT.store(old, Ordering::Relaxed);
    if r != 0 {
        Some(LAST_REFUSED.load(Ordering::Relaxed))
    } else {
        None
    }
}
