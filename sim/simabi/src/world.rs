//! Simulator-owned state of one simulated execution: the event log, numbered fault points (where the plan
//! injects panics), the ledger of handle objects (ids recorded at construction and in Drop), simulator
//! events that leaf futures park on, and the wakers registered for them. Thread-local; one execution at a time.
use std::cell::RefCell;
use std::collections::{BTreeMap, BTreeSet};
use std::task::Waker;

pub const STATIC_TOKENS: [&str; 32] = [
    "TOKSTR_00", "TOKSTR_01", "TOKSTR_02", "TOKSTR_03", "TOKSTR_04", "TOKSTR_05", "TOKSTR_06", "TOKSTR_07", "TOKSTR_08", "TOKSTR_09", "TOKSTR_10",
    "TOKSTR_11", "TOKSTR_12", "TOKSTR_13", "TOKSTR_14", "TOKSTR_15", "TOKSTR_16", "TOKSTR_17", "TOKSTR_18", "TOKSTR_19", "TOKSTR_20", "TOKSTR_21",
    "TOKSTR_22", "TOKSTR_23", "TOKSTR_24", "TOKSTR_25", "TOKSTR_26", "TOKSTR_27", "TOKSTR_28", "TOKSTR_29", "TOKSTR_30", "TOKSTR_31",
];
/// non-string panic payload
pub struct NonString(pub u64);

#[derive(Clone, Copy, Debug, PartialEq)]
pub enum Payload {
    Str,
    Fmt,
    Any,
    /// a formatted message of a few thousand bytes (its LAST token is what the caller must still see)
    Long,
}
impl Payload {
    pub fn name(self) -> &'static str {
        match self {
            Payload::Str => "str",
            Payload::Fmt => "fmt",
            Payload::Any => "any",
            Payload::Long => "long",
        }
    }
    pub fn from_name(s: &str) -> Payload {
        match s {
            "fmt" => Payload::Fmt,
            "any" => Payload::Any,
            "long" => Payload::Long,
            _ => Payload::Str,
        }
    }
}
pub fn token_for(n: u64, p: Payload) -> Option<String> {
    match p {
        Payload::Str => Some(STATIC_TOKENS[(n % 32) as usize].to_string()),
        Payload::Fmt => Some(format!("TOKFMT_{}_x", n)),
        Payload::Any => None,
        Payload::Long => Some(format!("TOKEND_{}_x", n)),
    }
}
pub fn long_message(n: u64) -> String {
    format!("TOKLONG_{}_{}_TOKEND_{}_x", n, "long panic message ".repeat(40 + (n % 7) as usize * 30), n)
}

#[derive(Default)]
pub struct World {
    pub events_log: Vec<String>,
    pub drops_log: Vec<String>,
    pub fp_counter: u64,
    pub panics: BTreeMap<u64, Payload>,
    /// (fault point index, name, payload) of every injected panic that was actually delivered
    pub fired: Vec<(u64, String, Payload)>,
    pub fp_names_seen: BTreeMap<String, u64>,
    pub ledger: Vec<(String, u32)>,
    pub double_drops: Vec<String>,
    pub sim_events: BTreeSet<u32>,
    pub wakers: BTreeMap<u32, Vec<(u64, Waker)>>,
    pub woken: BTreeSet<(usize, u64)>,
    pub stale_wakes: u64,
    pub wakes: u64,
    pub faults_enabled: bool,
}
thread_local! {
    pub static WORLD: RefCell<World> = RefCell::new(World::default());
}
pub fn reset(panics: BTreeMap<u64, Payload>) {
    // wakers must be dropped outside the borrow (their drop touches nothing of ours, but be safe)
    let old = WORLD.with(|w| std::mem::take(&mut *w.borrow_mut()));
    drop(old);
    WORLD.with(|w| {
        let mut w = w.borrow_mut();
        w.panics = panics;
        w.faults_enabled = true;
    });
}
pub fn log(s: String) {
    WORLD.with(|w| w.borrow_mut().events_log.push(s));
}
pub fn take_logs() -> (Vec<String>, Vec<String>) {
    WORLD.with(|w| {
        let mut w = w.borrow_mut();
        let mut d = std::mem::take(&mut w.drops_log);
        d.sort();
        (std::mem::take(&mut w.events_log), d)
    })
}
/// A numbered point in harness code where the plan may inject a panic.
pub fn fault_point(name: &str) {
    let hit = WORLD.with(|w| {
        let mut w = w.borrow_mut();
        let n = w.fp_counter;
        w.fp_counter += 1;
        *w.fp_names_seen.entry(name.to_string()).or_insert(0) += 1;
        if !w.faults_enabled || std::thread::panicking() {
            // never inject while unwinding (a second panic would abort by Rust's own rules, not by the library's doing)
            return None;
        }
        match w.panics.get(&n).copied() {
            Some(p) => {
                w.fired.push((n, name.to_string(), p));
                w.events_log.push(format!("INJECT panic at fp{} ({}) payload={}", n, name, p.name()));
                Some((n, p))
            }
            None => None,
        }
    });
    if let Some((n, p)) = hit {
        if std::thread::panicking() {
            return; // never panic while unwinding (would abort by Rust's own rules, not by the library's doing)
        }
        match p {
            Payload::Str => std::panic::panic_any(STATIC_TOKENS[(n % 32) as usize]),
            Payload::Fmt => panic!("TOKFMT_{}_x", n),
            Payload::Any => std::panic::panic_any(NonString(n)),
            Payload::Long => panic!("{}", long_message(n)),
        }
    }
}
pub fn set_faults_enabled(on: bool) {
    WORLD.with(|w| w.borrow_mut().faults_enabled = on);
}

/// Ledger guard: one per handle object (implementation objects, closures' captures, boxed trait objects, futures).
pub struct Guard {
    id: u64,
}
impl Guard {
    pub fn new(kind: &str) -> Guard {
        WORLD.with(|w| {
            let mut w = w.borrow_mut();
            let id = w.ledger.len() as u64;
            w.ledger.push((kind.to_string(), 0));
            w.events_log.push(format!("new {}#{}", kind, id));
            Guard { id }
        })
    }
    pub fn id(&self) -> u64 {
        self.id
    }
    pub fn kind(&self) -> String {
        WORLD.with(|w| w.borrow().ledger.get(self.id as usize).map(|x| x.0.clone()).unwrap_or_default())
    }
}
impl Drop for Guard {
    fn drop(&mut self) {
        let _ = WORLD.try_with(|w| {
            if let Ok(mut w) = w.try_borrow_mut() {
                let id = self.id as usize;
                if id < w.ledger.len() {
                    w.ledger[id].1 += 1;
                    let kind = w.ledger[id].0.clone();
                    if w.ledger[id].1 > 1 {
                        w.double_drops.push(format!("{}#{}", kind, id));
                    }
                    w.drops_log.push(format!("drop {}#{}", kind, id));
                }
            }
        });
    }
}

pub fn event_fired(e: u32) -> bool {
    WORLD.with(|w| w.borrow().sim_events.contains(&e))
}
/// keep only the most recent waker per (event, future)
pub fn register_waker(e: u32, fut_id: u64, waker: Waker) {
    let old = WORLD.with(|w| {
        let mut w = w.borrow_mut();
        let v = w.wakers.entry(e).or_default();
        let mut old = None;
        if let Some(pos) = v.iter().position(|(f, _)| *f == fut_id) {
            old = Some(v.remove(pos));
        }
        v.push((fut_id, waker));
        old
    });
    drop(old);
}
/// fire event e: mark it and wake everything registered for it (outside the borrow: wake re-enters the world)
pub fn fire(e: u32) -> usize {
    let ws = WORLD.with(|w| {
        let mut w = w.borrow_mut();
        w.sim_events.insert(e);
        w.wakers.remove(&e).unwrap_or_default()
    });
    let n = ws.len();
    for (_f, wk) in ws {
        wk.wake();
    }
    n
}
/// drop all wakers registered by a future that no longer exists
pub fn forget_wakers_of(fut_ids: &[u64]) {
    let dropped: Vec<(u64, Waker)> = WORLD.with(|w| {
        let mut w = w.borrow_mut();
        let mut out = Vec::new();
        for v in w.wakers.values_mut() {
            let mut i = 0;
            while i < v.len() {
                if fut_ids.contains(&v[i].0) {
                    out.push(v.remove(i));
                } else {
                    i += 1;
                }
            }
        }
        out
    });
    drop(dropped);
}
pub fn dead_future_ids() -> Vec<u64> {
    WORLD.with(|w| {
        let w = w.borrow();
        w.ledger
            .iter()
            .enumerate()
            .filter(|(_, (k, d))| k == "future" && *d > 0)
            .map(|(i, _)| i as u64)
            .collect()
    })
}
