//! The harness interface family for C09 and its implementation. Everything here is *harness* code: the
//! implementation objects, closures, leaf futures all register in the ledger of `world` and hit numbered
//! fault points where the plan may inject a panic. The code under test is what sits between the caller
//! script and these bodies in the ABI world: the generated trampolines, abi_entry*, FlexBuffer, AbiConnection.
#![allow(clippy::too_many_arguments)]
use crate::world::{fault_point, log, Guard};
use bytes::BufMut;
use savefile_derive::{savefile_abi_exportable, Savefile};
use std::future::Future;
use std::pin::Pin;
use std::task::{Context, Poll};

#[derive(Savefile, Debug, Clone, PartialEq)]
#[repr(C)]
pub struct Packed3 {
    pub a: u64,
    pub b: u64,
    pub c: u64,
}
/// 9 bytes of fields in a 16-byte struct: 7 bytes of tail padding
#[derive(Savefile, Debug, Clone, PartialEq)]
#[repr(C)]
pub struct PadRec {
    pub a: u64,
    pub b: u8,
}
#[derive(Savefile, Debug, Clone, PartialEq)]
pub struct Rec {
    pub name: String,
    pub items: Vec<u16>,
    pub flag: bool,
}

#[savefile_abi_exportable(version = 0)]
pub trait Leaf {
    fn ping(&self, x: u32) -> u32;
    fn name(&self) -> String;
}

/// a type whose second field only exists from data version 1 on
#[derive(Savefile, Debug, Clone, PartialEq)]
pub struct Reading {
    pub value: u32,
    #[savefile_versions = "1.."]
    pub unit: String,
}

#[savefile_abi_exportable(version = 1)]
pub trait Svc {
    fn add(&self, a: u32, b: u32) -> u32;
    fn deref(&self, x: &u32) -> u32;
    fn map_reading(&self, f: &dyn Fn(Reading) -> Reading, r: Reading) -> Reading;
    fn echo_string(&self, s: String) -> String;
    fn echo_vec(&self, v: Vec<u8>) -> Vec<u8>;
    fn join(&self, s: String, tag: u32) -> (String, u32);
    fn concat(&self, a: String, b: String) -> String;
    fn sum_ref(&self, p: &Packed3) -> u64;
    fn pad(&self, p: &PadRec) -> u64;
    fn len_ref(&self, r: &Rec) -> usize;
    fn count_str(&self, s: &str) -> usize;
    fn sum_slice(&self, s: &[u32]) -> u64;
    fn try_div(&self, a: u32, b: u32) -> Result<u32, String>;
    fn bump(&mut self, by: u32) -> u32;
    fn call_fn(&self, f: &dyn Fn(u32) -> u32, x: u32) -> u32;
    fn call_fnmut(&self, f: &mut dyn FnMut(u32) -> u32, n: u32) -> u32;
    fn take_boxed_fn(&mut self, f: Box<dyn Fn(u32) -> u32 + Send + Sync>) -> u32;
    fn call_stored(&self, x: u32) -> u32;
    fn drop_stored(&mut self) -> u32;
    fn take_leaf(&mut self, l: Box<dyn Leaf>, x: u32) -> u32;
    fn ping_leaves(&self, x: u32) -> u32;
    fn drop_leaves(&mut self) -> u32;
    fn make_leaf(&self, tag: u32) -> Box<dyn Leaf>;
    fn make_fn(&self, k: u32) -> Box<dyn Fn(u32) -> u32>;
    fn fut(&self, ev: u32, stages: u32) -> Pin<Box<dyn Future<Output = u32>>>;
    fn fut_bool(&self, ev: u32) -> Pin<Box<dyn Future<Output = bool>>>;
    fn fut_char(&self, ev: u32) -> Pin<Box<dyn Future<Output = char>>>;
    fn fut_unpin(&self, ev: u32) -> Pin<Box<dyn Future<Output = u16> + Unpin>>;
    fn fill(&self, buf: &mut dyn BufMut, n: u32, seed: u32);
    fn many(&self, a0: u8, a1: u8, a2: u8, a3: u8, a4: u8, a5: u8, a6: u8, a7: u8, a8: u8, a9: u8, a10: u8, a11: u8, a12: u8, a13: u8, a14: u8, a15: u8, a16: u8, a17: u8, a18: u8, a19: u8, a20: u8, a21: u8, a22: u8, a23: u8, a24: u8, a25: u8, a26: u8, a27: u8, a28: u8, a29: u8, a30: u8, a31: u8, a32: u8, a33: u8, a34: u8, a35: u8, a36: u8, a37: u8, a38: u8, a39: u8, a40: u8, a41: u8, a42: u8, a43: u8, a44: u8, a45: u8, a46: u8, a47: u8, a48: u8, a49: u8, a50: u8, a51: u8, a52: u8, a53: u8, a54: u8, a55: u8, a56: u8, a57: u8, a58: u8, a59: u8, a60: u8, a61: u8, a62: u8, a63: u8) -> u32;
}

/// a boxed trait object handed across the boundary (in either direction); owns a ledger guard
pub struct LeafObj {
    pub guard: Guard,
    pub tag: u32,
}
impl Leaf for LeafObj {
    fn ping(&self, x: u32) -> u32 {
        fault_point("leaf.ping");
        log(format!("leaf{}.ping x={}", self.tag, x));
        x.wrapping_mul(3).wrapping_add(self.tag)
    }
    fn name(&self) -> String {
        fault_point("leaf.name");
        format!("leaf-{}-{}", self.tag, "n".repeat((self.tag % 90) as usize))
    }
}

pub struct SvcImpl {
    pub guard: Guard,
    pub counter: u32,
    pub stored: Option<Box<dyn Fn(u32) -> u32 + Send + Sync>>,
    pub leaves: Vec<Box<dyn Leaf>>,
}
impl SvcImpl {
    pub fn new() -> SvcImpl {
        SvcImpl {
            guard: Guard::new("svc"),
            counter: 0,
            stored: None,
            leaves: Vec::new(),
        }
    }
}
fn digest(b: &[u8]) -> String {
    format!("len={} h={:08x}", b.len(), simcore::fnv_bytes(b) as u32)
}
impl Svc for SvcImpl {
    fn add(&self, a: u32, b: u32) -> u32 {
        fault_point("add");
        log(format!("impl.add {} {}", a, b));
        a.wrapping_add(b)
    }
    fn deref(&self, x: &u32) -> u32 {
        fault_point("deref");
        log(format!("impl.deref {}", x));
        x.wrapping_mul(2)
    }
    fn map_reading(&self, f: &dyn Fn(Reading) -> Reading, r: Reading) -> Reading {
        fault_point("map_reading");
        log(format!("impl.map_reading {:?}", r));
        let out = f(r);
        fault_point("map_reading.ret");
        log(format!("impl.map_reading got {:?}", out));
        Reading { value: out.value.wrapping_add(1), unit: format!("<{}>", out.unit) }
    }
    fn echo_string(&self, s: String) -> String {
        fault_point("echo_string");
        log(format!("impl.echo_string {}", digest(s.as_bytes())));
        fault_point("echo_string.ret");
        s
    }
    fn echo_vec(&self, v: Vec<u8>) -> Vec<u8> {
        fault_point("echo_vec");
        log(format!("impl.echo_vec {}", digest(&v)));
        let mut v = v;
        v.reverse();
        v
    }
    fn join(&self, s: String, tag: u32) -> (String, u32) {
        fault_point("join");
        log(format!("impl.join {} tag={}", digest(s.as_bytes()), tag));
        (s, tag.wrapping_add(1))
    }
    fn concat(&self, a: String, b: String) -> String {
        fault_point("concat");
        log(format!("impl.concat {} {}", digest(a.as_bytes()), digest(b.as_bytes())));
        let mut r = a;
        r.push_str(&b);
        r
    }
    fn sum_ref(&self, p: &Packed3) -> u64 {
        fault_point("sum_ref");
        log(format!("impl.sum_ref {:?}", p));
        p.a.wrapping_add(p.b).wrapping_add(p.c)
    }
    fn pad(&self, p: &PadRec) -> u64 {
        fault_point("pad");
        log(format!("impl.pad a={} b={}", p.a, p.b));
        p.a.wrapping_add(p.b as u64)
    }
    fn len_ref(&self, r: &Rec) -> usize {
        fault_point("len_ref");
        log(format!("impl.len_ref {} {} {}", digest(r.name.as_bytes()), r.items.len(), r.flag));
        r.name.len() + r.items.len()
    }
    fn count_str(&self, s: &str) -> usize {
        fault_point("count_str");
        log(format!("impl.count_str {}", digest(s.as_bytes())));
        s.chars().count()
    }
    fn sum_slice(&self, s: &[u32]) -> u64 {
        fault_point("sum_slice");
        log(format!("impl.sum_slice n={}", s.len()));
        s.iter().map(|x| *x as u64).sum()
    }
    fn try_div(&self, a: u32, b: u32) -> Result<u32, String> {
        fault_point("try_div");
        log(format!("impl.try_div {} {}", a, b));
        if b == 0 {
            Err(format!("division of {} by zero", a))
        } else {
            Ok(a / b)
        }
    }
    fn bump(&mut self, by: u32) -> u32 {
        fault_point("bump");
        self.counter = self.counter.wrapping_add(by);
        fault_point("bump.mid");
        self.counter = self.counter.wrapping_add(by);
        log(format!("impl.bump by={} -> {}", by, self.counter));
        self.counter
    }
    fn call_fn(&self, f: &dyn Fn(u32) -> u32, x: u32) -> u32 {
        fault_point("call_fn");
        log(format!("impl.call_fn x={}", x));
        let a = f(x);
        fault_point("call_fn.between");
        let b = f(a);
        fault_point("call_fn.ret");
        log(format!("impl.call_fn got {} {}", a, b));
        a.wrapping_add(b)
    }
    fn call_fnmut(&self, f: &mut dyn FnMut(u32) -> u32, n: u32) -> u32 {
        fault_point("call_fnmut");
        let mut acc = 0u32;
        for i in 0..(n % 4) {
            acc = acc.wrapping_add(f(i));
            fault_point("call_fnmut.loop");
        }
        log(format!("impl.call_fnmut n={} acc={}", n, acc));
        acc
    }
    fn take_boxed_fn(&mut self, f: Box<dyn Fn(u32) -> u32 + Send + Sync>) -> u32 {
        fault_point("take_boxed_fn");
        let r = f(7);
        fault_point("take_boxed_fn.after_call");
        log(format!("impl.take_boxed_fn f(7)={}", r));
        self.stored = Some(f); // drops a previously stored closure
        fault_point("take_boxed_fn.stored");
        r
    }
    fn call_stored(&self, x: u32) -> u32 {
        fault_point("call_stored");
        match &self.stored {
            Some(f) => {
                let r = f(x);
                log(format!("impl.call_stored f({})={}", x, r));
                r
            }
            None => {
                log("impl.call_stored none".to_string());
                0
            }
        }
    }
    fn drop_stored(&mut self) -> u32 {
        fault_point("drop_stored");
        let had = self.stored.is_some() as u32;
        self.stored = None;
        log(format!("impl.drop_stored had={}", had));
        had
    }
    fn take_leaf(&mut self, l: Box<dyn Leaf>, x: u32) -> u32 {
        fault_point("take_leaf");
        let r = l.ping(x);
        fault_point("take_leaf.after_ping");
        let n = l.name();
        log(format!("impl.take_leaf ping={} name={}", r, digest(n.as_bytes())));
        self.leaves.push(l);
        fault_point("take_leaf.stored");
        r
    }
    fn ping_leaves(&self, x: u32) -> u32 {
        fault_point("ping_leaves");
        let mut acc = 0u32;
        for l in &self.leaves {
            acc = acc.wrapping_add(l.ping(x));
        }
        log(format!("impl.ping_leaves n={} acc={}", self.leaves.len(), acc));
        acc
    }
    fn drop_leaves(&mut self) -> u32 {
        fault_point("drop_leaves");
        let n = self.leaves.len() as u32;
        self.leaves.clear();
        log(format!("impl.drop_leaves n={}", n));
        n
    }
    fn make_leaf(&self, tag: u32) -> Box<dyn Leaf> {
        fault_point("make_leaf");
        let l = Box::new(LeafObj {
            guard: Guard::new("leaf(impl-made)"),
            tag,
        });
        fault_point("make_leaf.made");
        log(format!("impl.make_leaf tag={}", tag));
        l
    }
    fn make_fn(&self, k: u32) -> Box<dyn Fn(u32) -> u32> {
        fault_point("make_fn");
        let g = Guard::new("closure(impl-made)");
        log(format!("impl.make_fn k={}", k));
        Box::new(move |x| {
            let g = &g; // capture the guard whole
            fault_point("made_fn.call");
            log(format!("madefn{}.call x={} g={}", k, x, g.kind()));
            x.wrapping_mul(k).wrapping_add(1)
        })
    }
    fn fut(&self, ev: u32, stages: u32) -> Pin<Box<dyn Future<Output = u32>>> {
        fault_point("fut");
        log(format!("impl.fut ev={} stages={}", ev, stages));
        let lazy = stages >= 100;
        Box::pin(LeafFut {
            guard: Guard::new("future"),
            ev,
            stage: 0,
            stages: (stages % 100).clamp(1, 3),
            lazy,
            registered: false,
        })
    }
    fn fut_unpin(&self, ev: u32) -> Pin<Box<dyn Future<Output = u16> + Unpin>> {
        fault_point("fut_unpin");
        log(format!("impl.fut_unpin ev={}", ev));
        Box::pin(MapFut { inner: LeafFut { guard: Guard::new("future"), ev, stage: 0, stages: 1, lazy: false, registered: false }, f: |v: u32| v as u16 })
    }
    fn fill(&self, buf: &mut dyn BufMut, n: u32, seed: u32) {
        fault_point("fill");
        log(format!("impl.fill n={} seed={}", n, seed));
        // one large put_slice, a few multi-byte puts and single bytes: whatever chunking the receiving side offers, every
        // byte must arrive, in order
        let data: Vec<u8> = (0..n).map(|i| (i.wrapping_mul(31).wrapping_add(seed)) as u8).collect();
        let (a, b) = data.split_at(data.len() / 3);
        buf.put_slice(a);
        buf.put_u64_le(0x0102_0304_0506_0708 ^ seed as u64);
        buf.put_slice(b);
        buf.put_u8(seed as u8);
        buf.put_u32(seed);
    }
    fn fut_bool(&self, ev: u32) -> Pin<Box<dyn Future<Output = bool>>> {
        fault_point("fut_bool");
        log(format!("impl.fut_bool ev={}", ev));
        Box::pin(MapFut { inner: LeafFut { guard: Guard::new("future"), ev, stage: 0, stages: 1, lazy: false, registered: false }, f: |v: u32| v % 2 == 0 })
    }
    fn fut_char(&self, ev: u32) -> Pin<Box<dyn Future<Output = char>>> {
        fault_point("fut_char");
        log(format!("impl.fut_char ev={}", ev));
        Box::pin(MapFut { inner: LeafFut { guard: Guard::new("future"), ev, stage: 0, stages: 1, lazy: false, registered: false }, f: |v: u32| char::from_u32(0x1F600 + v % 64).unwrap_or('x') })
    }
    fn many(&self, a0: u8, a1: u8, a2: u8, a3: u8, a4: u8, a5: u8, a6: u8, a7: u8, a8: u8, a9: u8, a10: u8, a11: u8, a12: u8, a13: u8, a14: u8, a15: u8, a16: u8, a17: u8, a18: u8, a19: u8, a20: u8, a21: u8, a22: u8, a23: u8, a24: u8, a25: u8, a26: u8, a27: u8, a28: u8, a29: u8, a30: u8, a31: u8, a32: u8, a33: u8, a34: u8, a35: u8, a36: u8, a37: u8, a38: u8, a39: u8, a40: u8, a41: u8, a42: u8, a43: u8, a44: u8, a45: u8, a46: u8, a47: u8, a48: u8, a49: u8, a50: u8, a51: u8, a52: u8, a53: u8, a54: u8, a55: u8, a56: u8, a57: u8, a58: u8, a59: u8, a60: u8, a61: u8, a62: u8, a63: u8) -> u32 {
        fault_point("many");
        let s = (a0 as u32) * 1 + (a1 as u32) * 2 + (a2 as u32) * 3 + (a3 as u32) * 4 + (a4 as u32) * 5 + (a5 as u32) * 6 + (a6 as u32) * 7 + (a7 as u32) * 8 + (a8 as u32) * 9 + (a9 as u32) * 10 + (a10 as u32) * 11 + (a11 as u32) * 12 + (a12 as u32) * 13 + (a13 as u32) * 14 + (a14 as u32) * 15 + (a15 as u32) * 16 + (a16 as u32) * 17 + (a17 as u32) * 18 + (a18 as u32) * 19 + (a19 as u32) * 20 + (a20 as u32) * 21 + (a21 as u32) * 22 + (a22 as u32) * 23 + (a23 as u32) * 24 + (a24 as u32) * 25 + (a25 as u32) * 26 + (a26 as u32) * 27 + (a27 as u32) * 28 + (a28 as u32) * 29 + (a29 as u32) * 30 + (a30 as u32) * 31 + (a31 as u32) * 32 + (a32 as u32) * 33 + (a33 as u32) * 34 + (a34 as u32) * 35 + (a35 as u32) * 36 + (a36 as u32) * 37 + (a37 as u32) * 38 + (a38 as u32) * 39 + (a39 as u32) * 40 + (a40 as u32) * 41 + (a41 as u32) * 42 + (a42 as u32) * 43 + (a43 as u32) * 44 + (a44 as u32) * 45 + (a45 as u32) * 46 + (a46 as u32) * 47 + (a47 as u32) * 48 + (a48 as u32) * 49 + (a49 as u32) * 50 + (a50 as u32) * 51 + (a51 as u32) * 52 + (a52 as u32) * 53 + (a53 as u32) * 54 + (a54 as u32) * 55 + (a55 as u32) * 56 + (a56 as u32) * 57 + (a57 as u32) * 58 + (a58 as u32) * 59 + (a59 as u32) * 60 + (a60 as u32) * 61 + (a61 as u32) * 62 + (a62 as u32) * 63 + (a63 as u32) * 64;
        log(format!("impl.many sum={}", s));
        s
    }
}

/// A leaf future that parks on simulator events ev, ev+1, ... (one per stage) and keeps the Waker it was
/// given on its most recent poll, so that the waker closure that crossed the boundary stays alive inside
/// the implementation.
pub struct LeafFut {
    pub guard: Guard,
    pub ev: u32,
    pub stage: u32,
    pub stages: u32,
    /// lazy: registers the waker of its first poll for ALL its events and never again
    pub lazy: bool,
    pub registered: bool,
}
impl Future for LeafFut {
    type Output = u32;
    fn poll(mut self: Pin<&mut Self>, cx: &mut Context<'_>) -> Poll<u32> {
        fault_point("fut.poll");
        loop {
            let e = self.ev + self.stage;
            if crate::world::event_fired(e) {
                self.stage += 1;
                if self.stage >= self.stages {
                    log(format!("fut{}.ready", self.ev));
                    return Poll::Ready(1000 + self.ev * 10 + self.stages);
                }
                continue;
            }
            log(format!("fut{}.pending stage={}", self.ev, self.stage));
            if self.lazy {
                if !self.registered {
                    self.registered = true;
                    for st in self.stage..self.stages {
                        crate::world::register_waker(self.ev + st, self.guard.id(), cx.waker().clone());
                    }
                }
                return Poll::Pending;
            }
            crate::world::register_waker(e, self.guard.id(), cx.waker().clone());
            fault_point("fut.registered");
            return Poll::Pending;
        }
    }
}

/// a leaf future whose output is mapped to another type (outputs of one or four bytes with invalid bit patterns:
/// bool, char)
pub struct MapFut<T> {
    pub inner: LeafFut,
    pub f: fn(u32) -> T,
}
impl<T> Future for MapFut<T> {
    type Output = T;
    fn poll(mut self: Pin<&mut Self>, cx: &mut Context<'_>) -> Poll<T> {
        let f = self.f;
        Pin::new(&mut self.inner).poll(cx).map(f)
    }
}
impl Drop for LeafFut {
    fn drop(&mut self) {
        // the future owns the waker it registered: it goes away with the future
        crate::world::forget_wakers_of(&[self.guard.id()]);
    }
}

/// A second, implementation-side definition of the same interface: identical method signatures, but declared in
/// reverse order behind an extra method (so every callee method number differs and must be found by name), at
/// a newer version, and with a by-reference argument type whose memory layout differs from the caller's
/// (`Packed3Alt` has a field the caller's version does not know, placed first). Connecting the caller's
/// `dyn Svc` to this entry point must still behave exactly like calling the implementation directly.
pub mod alt {
    use super::*;
    #[derive(Savefile, Debug, Clone, PartialEq)]
    #[repr(C)]
    pub struct Packed3Alt {
        #[savefile_versions = "2.."]
        pub d: u64,
        pub a: u64,
        pub b: u64,
        pub c: u64,
    }
    /// the implementation's newer PadRec: a field added in version 2 that fits into what is tail padding for the
    /// caller (same size, same alignment, same offsets of the common fields)
    #[derive(Savefile, Debug, Clone, PartialEq)]
    #[repr(C)]
    pub struct PadRecAlt {
        pub a: u64,
        pub b: u8,
        #[savefile_versions = "2.."]
        pub c: u32,
    }
    #[savefile_abi_exportable(version = 2)]
    pub trait Svc {
        fn extra_first(&self) -> u32;
        fn many(&self, a0: u8, a1: u8, a2: u8, a3: u8, a4: u8, a5: u8, a6: u8, a7: u8, a8: u8, a9: u8, a10: u8, a11: u8, a12: u8, a13: u8, a14: u8, a15: u8, a16: u8, a17: u8, a18: u8, a19: u8, a20: u8, a21: u8, a22: u8, a23: u8, a24: u8, a25: u8, a26: u8, a27: u8, a28: u8, a29: u8, a30: u8, a31: u8, a32: u8, a33: u8, a34: u8, a35: u8, a36: u8, a37: u8, a38: u8, a39: u8, a40: u8, a41: u8, a42: u8, a43: u8, a44: u8, a45: u8, a46: u8, a47: u8, a48: u8, a49: u8, a50: u8, a51: u8, a52: u8, a53: u8, a54: u8, a55: u8, a56: u8, a57: u8, a58: u8, a59: u8, a60: u8, a61: u8, a62: u8, a63: u8) -> u32;
        fn fut(&self, ev: u32, stages: u32) -> Pin<Box<dyn Future<Output = u32>>>;
        fn fut_char(&self, ev: u32) -> Pin<Box<dyn Future<Output = char>>>;
        fn fut_bool(&self, ev: u32) -> Pin<Box<dyn Future<Output = bool>>>;
        fn fill(&self, buf: &mut dyn BufMut, n: u32, seed: u32);
        fn fut_unpin(&self, ev: u32) -> Pin<Box<dyn Future<Output = u16> + Unpin>>;
        fn make_fn(&self, k: u32) -> Box<dyn Fn(u32) -> u32>;
        fn make_leaf(&self, tag: u32) -> Box<dyn Leaf>;
        fn drop_leaves(&mut self) -> u32;
        fn ping_leaves(&self, x: u32) -> u32;
        fn take_leaf(&mut self, l: Box<dyn Leaf>, x: u32) -> u32;
        fn drop_stored(&mut self) -> u32;
        fn call_stored(&self, x: u32) -> u32;
        fn take_boxed_fn(&mut self, f: Box<dyn Fn(u32) -> u32 + Send + Sync>) -> u32;
        fn call_fnmut(&self, f: &mut dyn FnMut(u32) -> u32, n: u32) -> u32;
        fn call_fn(&self, f: &dyn Fn(u32) -> u32, x: u32) -> u32;
        fn bump(&mut self, by: u32) -> u32;
        fn try_div(&self, a: u32, b: u32) -> Result<u32, String>;
        fn sum_slice(&self, s: &[u32]) -> u64;
        fn count_str(&self, s: &str) -> usize;
        fn len_ref(&self, r: &Rec) -> usize;
        fn sum_ref(&self, p: &Packed3Alt) -> u64;
        fn pad(&self, p: &PadRecAlt) -> u64;
        fn concat(&self, a: String, b: String) -> String;
        fn join(&self, s: String, tag: u32) -> (String, u32);
        fn echo_vec(&self, v: Vec<u8>) -> Vec<u8>;
        fn echo_string(&self, s: String) -> String;
        fn map_reading(&self, f: &dyn Fn(Reading) -> Reading, r: Reading) -> Reading;
        fn deref(&self, x: &u32) -> u32;
        fn add(&self, a: u32, b: u32) -> u32;
    }
    impl Svc for SvcImpl {
        fn extra_first(&self) -> u32 {
            0
        }
        fn many(&self, a0: u8, a1: u8, a2: u8, a3: u8, a4: u8, a5: u8, a6: u8, a7: u8, a8: u8, a9: u8, a10: u8, a11: u8, a12: u8, a13: u8, a14: u8, a15: u8, a16: u8, a17: u8, a18: u8, a19: u8, a20: u8, a21: u8, a22: u8, a23: u8, a24: u8, a25: u8, a26: u8, a27: u8, a28: u8, a29: u8, a30: u8, a31: u8, a32: u8, a33: u8, a34: u8, a35: u8, a36: u8, a37: u8, a38: u8, a39: u8, a40: u8, a41: u8, a42: u8, a43: u8, a44: u8, a45: u8, a46: u8, a47: u8, a48: u8, a49: u8, a50: u8, a51: u8, a52: u8, a53: u8, a54: u8, a55: u8, a56: u8, a57: u8, a58: u8, a59: u8, a60: u8, a61: u8, a62: u8, a63: u8) -> u32 {
            <SvcImpl as super::Svc>::many(self, a0, a1, a2, a3, a4, a5, a6, a7, a8, a9, a10, a11, a12, a13, a14, a15, a16, a17, a18, a19, a20, a21, a22, a23, a24, a25, a26, a27, a28, a29, a30, a31, a32, a33, a34, a35, a36, a37, a38, a39, a40, a41, a42, a43, a44, a45, a46, a47, a48, a49, a50, a51, a52, a53, a54, a55, a56, a57, a58, a59, a60, a61, a62, a63)
        }
        fn fut(&self, ev: u32, stages: u32) -> Pin<Box<dyn Future<Output = u32>>> {
            <SvcImpl as super::Svc>::fut(self, ev, stages)
        }
        fn fut_bool(&self, ev: u32) -> Pin<Box<dyn Future<Output = bool>>> {
            <SvcImpl as super::Svc>::fut_bool(self, ev)
        }
        fn fut_unpin(&self, ev: u32) -> Pin<Box<dyn Future<Output = u16> + Unpin>> {
            <SvcImpl as super::Svc>::fut_unpin(self, ev)
        }
        fn fill(&self, buf: &mut dyn BufMut, n: u32, seed: u32) {
            <SvcImpl as super::Svc>::fill(self, buf, n, seed)
        }
        fn fut_char(&self, ev: u32) -> Pin<Box<dyn Future<Output = char>>> {
            <SvcImpl as super::Svc>::fut_char(self, ev)
        }
        fn make_fn(&self, k: u32) -> Box<dyn Fn(u32) -> u32> {
            <SvcImpl as super::Svc>::make_fn(self, k)
        }
        fn make_leaf(&self, tag: u32) -> Box<dyn Leaf> {
            <SvcImpl as super::Svc>::make_leaf(self, tag)
        }
        fn drop_leaves(&mut self) -> u32 {
            <SvcImpl as super::Svc>::drop_leaves(self)
        }
        fn ping_leaves(&self, x: u32) -> u32 {
            <SvcImpl as super::Svc>::ping_leaves(self, x)
        }
        fn take_leaf(&mut self, l: Box<dyn Leaf>, x: u32) -> u32 {
            <SvcImpl as super::Svc>::take_leaf(self, l, x)
        }
        fn drop_stored(&mut self) -> u32 {
            <SvcImpl as super::Svc>::drop_stored(self)
        }
        fn call_stored(&self, x: u32) -> u32 {
            <SvcImpl as super::Svc>::call_stored(self, x)
        }
        fn take_boxed_fn(&mut self, f: Box<dyn Fn(u32) -> u32 + Send + Sync>) -> u32 {
            <SvcImpl as super::Svc>::take_boxed_fn(self, f)
        }
        fn call_fnmut(&self, f: &mut dyn FnMut(u32) -> u32, n: u32) -> u32 {
            <SvcImpl as super::Svc>::call_fnmut(self, f, n)
        }
        fn call_fn(&self, f: &dyn Fn(u32) -> u32, x: u32) -> u32 {
            <SvcImpl as super::Svc>::call_fn(self, f, x)
        }
        fn bump(&mut self, by: u32) -> u32 {
            <SvcImpl as super::Svc>::bump(self, by)
        }
        fn try_div(&self, a: u32, b: u32) -> Result<u32, String> {
            <SvcImpl as super::Svc>::try_div(self, a, b)
        }
        fn sum_slice(&self, s: &[u32]) -> u64 {
            <SvcImpl as super::Svc>::sum_slice(self, s)
        }
        fn count_str(&self, s: &str) -> usize {
            <SvcImpl as super::Svc>::count_str(self, s)
        }
        fn len_ref(&self, r: &Rec) -> usize {
            <SvcImpl as super::Svc>::len_ref(self, r)
        }
        fn sum_ref(&self, p: &Packed3Alt) -> u64 {
            <SvcImpl as super::Svc>::sum_ref(self, &Packed3 { a: p.a, b: p.b, c: p.c })
        }
        fn pad(&self, p: &PadRecAlt) -> u64 {
            // a caller that does not know `c` must make it arrive as 0
            <SvcImpl as super::Svc>::pad(self, &PadRec { a: p.a, b: p.b }).wrapping_add((p.c as u64).wrapping_mul(1_000_003))
        }
        fn concat(&self, a: String, b: String) -> String {
            <SvcImpl as super::Svc>::concat(self, a, b)
        }
        fn join(&self, s: String, tag: u32) -> (String, u32) {
            <SvcImpl as super::Svc>::join(self, s, tag)
        }
        fn echo_vec(&self, v: Vec<u8>) -> Vec<u8> {
            <SvcImpl as super::Svc>::echo_vec(self, v)
        }
        fn echo_string(&self, s: String) -> String {
            <SvcImpl as super::Svc>::echo_string(self, s)
        }
        fn map_reading(&self, f: &dyn Fn(Reading) -> Reading, r: Reading) -> Reading {
            <SvcImpl as super::Svc>::map_reading(self, f, r)
        }
        fn deref(&self, x: &u32) -> u32 {
            <SvcImpl as super::Svc>::deref(self, x)
        }
        fn add(&self, a: u32, b: u32) -> u32 {
            <SvcImpl as super::Svc>::add(self, a, b)
        }
    }
}


/// Version skew in the other direction: a NEWER caller (interface version 1, an enum with a variant added in version 1)
/// and an OLDER implementation (version 0). Known variants must arrive unchanged whether they travel by reference or
/// serialized; the variant the implementation does not know must be refused on the way - the implementation must
/// never be handed a discriminant that is not one of its own.
pub mod skew {
    pub mod newer {
        use savefile_derive::{savefile_abi_exportable, Savefile};
        #[derive(Savefile, Debug, Clone, PartialEq)]
        #[repr(C, u8)]
        pub enum Sig {
            A(u32),
            B(u32),
            #[savefile_versions = "1.."]
            C(u32),
        }
        #[savefile_abi_exportable(version = 1)]
        pub trait EnumSvc {
            fn tag(&self, s: &Sig) -> u32;
        }
    }
    pub mod older {
        use crate::world::{fault_point, log, Guard};
        use savefile_derive::{savefile_abi_exportable, Savefile};
        #[derive(Savefile, Debug, Clone, PartialEq)]
        #[repr(C, u8)]
        pub enum Sig {
            A(u32),
            B(u32),
        }
        #[savefile_abi_exportable(version = 0)]
        pub trait EnumSvc {
            fn tag(&self, s: &Sig) -> u32;
        }
        pub struct OldImpl(pub Guard);
        impl EnumSvc for OldImpl {
            fn tag(&self, s: &Sig) -> u32 {
                fault_point("old.tag");
                // look at the discriminant through a raw byte first: an invalid one must be seen, not matched on
                let d = unsafe { *(s as *const Sig as *const u8) };
                if d > 1 {
                    log(format!("old.tag INVALID-DISCRIMINANT {}", d));
                    return 999_999;
                }
                log(format!("old.tag {:?}", s));
                match s {
                    Sig::A(x) => x.wrapping_add(1),
                    Sig::B(x) => x.wrapping_add(2),
                }
            }
        }
    }
}

/// The same with `#[async_trait]` methods (the generated code wraps them in boxed Send futures and records the
/// async heuristic): each method awaits a simulator event in the middle.
#[async_trait::async_trait]
#[savefile_abi_exportable(version = 0)]
pub trait ASvc {
    async fn aget(&self, ev: u32, x: u32) -> u32;
    async fn aset(&mut self, ev: u32, s: String) -> u32;
}
pub struct ASvcImpl {
    pub guard: Guard,
    pub val: u32,
}
impl ASvcImpl {
    pub fn new() -> ASvcImpl {
        ASvcImpl { guard: Guard::new("asvc"), val: 7 }
    }
}
/// awaits one simulator event
pub struct WaitEv {
    guard: Guard,
    ev: u32,
}
impl WaitEv {
    fn new(ev: u32) -> WaitEv {
        WaitEv { guard: Guard::new("future"), ev }
    }
}
impl Future for WaitEv {
    type Output = ();
    fn poll(self: Pin<&mut Self>, cx: &mut Context<'_>) -> Poll<()> {
        fault_point("waitev.poll");
        if crate::world::event_fired(self.ev) {
            log(format!("waitev{}.ready", self.ev));
            return Poll::Ready(());
        }
        log(format!("waitev{}.pending", self.ev));
        crate::world::register_waker(self.ev, self.guard.id(), cx.waker().clone());
        Poll::Pending
    }
}
impl Drop for WaitEv {
    fn drop(&mut self) {
        crate::world::forget_wakers_of(&[self.guard.id()]);
    }
}
#[async_trait::async_trait]
impl ASvc for ASvcImpl {
    async fn aget(&self, ev: u32, x: u32) -> u32 {
        fault_point("aget");
        log(format!("impl.aget ev={} x={}", ev, x));
        WaitEv::new(ev).await;
        fault_point("aget.resumed");
        x.wrapping_add(self.val)
    }
    async fn aset(&mut self, ev: u32, s: String) -> u32 {
        fault_point("aset");
        log(format!("impl.aset ev={} {}", ev, digest(s.as_bytes())));
        WaitEv::new(ev).await;
        self.val = s.len() as u32;
        fault_point("aset.resumed");
        self.val
    }
}

pub fn call_many(svc: &dyn Svc, v: &[u8; 64]) -> u32 {
    svc.many(v[0], v[1], v[2], v[3], v[4], v[5], v[6], v[7], v[8], v[9], v[10], v[11], v[12], v[13], v[14], v[15], v[16], v[17], v[18], v[19], v[20], v[21], v[22], v[23], v[24], v[25], v[26], v[27], v[28], v[29], v[30], v[31], v[32], v[33], v[34], v[35], v[36], v[37], v[38], v[39], v[40], v[41], v[42], v[43], v[44], v[45], v[46], v[47], v[48], v[49], v[50], v[51], v[52], v[53], v[54], v[55], v[56], v[57], v[58], v[59], v[60], v[61], v[62], v[63])
}
