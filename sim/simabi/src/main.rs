//! simabi worker: single-threaded peer simulator for C09 (panic injection at numbered fault points, future
//! poll / wake / cancel schedules, drop conservation), compared against the same plan run without savefile-abi.
//!   simabi run --prop C09 --seed S --from A --to B [--stride N] [--journal F] [--out F] [--trace] [--max-seconds N]
//!   simabi replay FILE
mod exec;
mod iface;
mod world;
use exec::*;
use serde_json::{json, Value};
use simcore::{arg, flag, mix, Journal, Stats};

fn account(stats: &mut Stats, plan: &Plan, j: &Judged, job: u64) {
    stats.inc("evals");
    stats.add("logical_steps", j.abi.steps);
    stats.add("ops", plan.ops.len() as u64);
    stats.add("fault_points_passed", j.abi.fp_total);
    for (_, name, p) in &j.abi.fired {
        stats.inc(&format!("fired.panic-{}", p.name()));
        stats.inc(&format!("fired_at.{}", name));
    }
    stats.add("wakes_delivered", j.abi.wakes);
    let mut outcome = "ok";
    if let Some(e) = &j.harness_error {
        stats.inc("harness_error");
        stats.sample("harness_error", || json!({"error": e, "plan": plan.to_json()}));
        outcome = "harness-error";
    }
    // probes
    let has = |needle: &str| j.abi.ops.iter().any(|o| o.result.contains(needle) || o.events.iter().any(|e| e.contains(needle)));
    if !j.abi.fired.is_empty() {
        stats.inc("evals_with_fault_fired");
        if j.abi.fired.iter().any(|f| f.1.starts_with("cb") || f.1.starts_with("leaf.") || f.1.starts_with("boxed_fn")) {
            stats.inc("probe.panic_in_nested_callback");
        }
        if j.abi.fired.iter().any(|f| f.1.starts_with("take_boxed_fn") || f.1.starts_with("take_leaf")) {
            stats.inc("probe.panic_with_owned_object_in_flight");
        }
        if j.abi.fired.iter().any(|f| f.1.starts_with("fut.")) {
            stats.inc("probe.panic_inside_future_poll");
        }
        if j.abi.fired.iter().any(|f| f.1.starts_with("made_fn") || f.1.starts_with("make_")) {
            stats.inc("probe.panic_around_returned_object");
        }
        // the connection was used again after a caught panic
        let mut seen_panic = false;
        for o in &j.abi.ops {
            if o.result.starts_with("panic") {
                seen_panic = true;
            } else if seen_panic && o.result.starts_with("ok") && o.events.iter().any(|e| e.starts_with("impl.")) {
                stats.inc("probe.connection_used_after_panic");
                break;
            }
        }
    }
    if has("ok cancelled") {
        stats.inc("probe.future_cancelled");
    }
    if has("pending") {
        stats.inc("probe.future_pending_across_steps");
    }
    if has("mode=1") {
        stats.inc("probe.reentrant_call");
    }
    if j.abi.ops.iter().any(|o| o.op.starts_with("echo_string") && o.result.contains("len=6")) {
        stats.inc("probe.argument_near_64_byte_boundary");
    }
    if let Some(v) = &j.violation {
        outcome = "violation";
        stats.inc("violations_raw");
        if stats.violations.len() < 40 && !stats.violations.iter().any(|x| x["oracle"] == json!(v.oracle) && x["signature"]["site"] == json!(v.site)) {
            stats.violations.push(json!({
                "job": job, "oracle": v.oracle, "detail": v.detail,
                "signature": {"oracle": v.oracle, "engine": "simabi", "container": "-", "fault_kind": v.fault_kind, "site": v.site, "region": "-"},
                "case": {"prop": "C09", "plan": plan.to_json(), "seed": plan.seed}, "log_hash": format!("{:016x}", j.log_hash),
            }));
        }
    }
    stats.inc(&format!("outcome.{}", outcome));
    if !j.abi.fired.is_empty() || plan.ops.iter().any(|o| (26..=29).contains(&o[0]) || o[0] == 32) {
        // signature: where the faults landed (site + payload kind), which schedule-bearing families were present, outcome
        let sites: Vec<String> = j.abi.fired.iter().map(|f| format!("{}:{}", f.1, f.2.name())).collect();
        let has_op = |n: &str| plan.ops.iter().any(|o| OP_NAMES[(o[0] as usize) % OP_NAMES.len()] == n);
        stats.sig(format!("{}|fut={}{}{}|conn={}|{}", sites.join(","), (has_op("spawn") || has_op("spawn_async")) as u8, has_op("cancel") as u8, has_op("fire") as u8, has_op("drop_conn") as u8, outcome));
    }
    let e = stats.counters.entry("log_hash_acc".into()).or_insert(0);
    *e = e.wrapping_mul(0x100000001b3) ^ j.log_hash;
    if j.violation.is_none() {
        let kind = if j.abi.fired.is_empty() { "fault-free" } else { "with-injected-panic" };
        stats.sample(kind, || json!({"plan": plan.to_json(), "fired": j.abi.fired.iter().map(|f| json!([f.0, f.1, f.2.name()])).collect::<Vec<_>>(),
            "abi_world_log": j.abi.ops.iter().take(12).map(|o| json!({"op": o.op, "events": o.events, "drops": o.drops, "result": o.result})).collect::<Vec<_>>()}));
    }
}

fn main() {
    let args: Vec<String> = std::env::args().collect();
    if std::env::var("SIM_LOUD").is_err() {
        simcore::install_silent_panic_hook();
    }
    match args.get(1).map(|s| s.as_str()).unwrap_or("") {
        "run" => {
            let seed: u64 = arg(&args, "--seed").and_then(|s| s.parse().ok()).unwrap_or(simcore::DEFAULT_SEED);
            let from: u64 = arg(&args, "--from").and_then(|s| s.parse().ok()).unwrap_or(0);
            let to: u64 = arg(&args, "--to").and_then(|s| s.parse().ok()).unwrap_or(1);
            let stride: u64 = arg(&args, "--stride").and_then(|s| s.parse().ok()).unwrap_or(1);
            let deadline = arg(&args, "--max-seconds").and_then(|s| s.parse::<u64>().ok()).map(|s| std::time::Instant::now() + std::time::Duration::from_secs(s));
            let mut journal = Journal::open(arg(&args, "--journal").as_deref());
            let trace = flag(&args, "--trace");
            let mut stats = Stats::new();
            stats.max_samples = 6;
            let mut i = from;
            let mut completed_to = from;
            while i < to {
                journal.line(&format!("BEGIN {}", i));
                let plan = gen_plan(mix(seed, "simabi-C09", i));
                if trace {
                    journal.line(&format!("EVAL {}", json!({"prop": "C09", "plan": plan.to_json(), "seed": plan.seed})));
                }
                let j = run_and_judge(&plan);
                stats.inc("jobs");
                account(&mut stats, &plan, &j, i);
                journal.line(&format!("END {} 0 {:016x}", i, j.log_hash));
                i += stride;
                completed_to = i;
                if let Some(d) = deadline {
                    if (i / stride) % 256 == 0 && std::time::Instant::now() > d {
                        break;
                    }
                }
            }
            let mut out = stats.to_json();
            out["completed_to"] = json!(completed_to);
            let s = serde_json::to_string(&out).unwrap();
            match arg(&args, "--out") {
                Some(p) => std::fs::write(p, s).expect("write out"),
                None => println!("{}", s),
            }
        }
        "replay" => {
            let v: Value = serde_json::from_str(&std::fs::read_to_string(args.get(2).expect("file")).expect("read")).expect("json");
            let cv = if v.get("case").is_some() { v["case"].clone() } else { v.clone() };
            let plan = Plan::from_json(&cv["plan"], simcore::ju(&cv, "seed"));
            let j = run_and_judge(&plan);
            let hash = format!("{:016x}", j.log_hash);
            if let Some(e) = j.harness_error {
                println!("{}", json!({"verdict": "harness-error", "error": e}));
                std::process::exit(2);
            }
            match j.violation {
                Some(v) => {
                    println!("{}", json!({"verdict": "violation", "oracle": v.oracle, "detail": v.detail, "log_hash": hash}));
                    std::process::exit(1);
                }
                None => {
                    println!("{}", json!({"verdict": "ok", "log_hash": hash, "fired": j.abi.fired.len()}));
                    std::process::exit(0);
                }
            }
        }
        "facts" => println!("{}", json!({"ops": OP_NAMES.to_vec()})),
        _ => {
            eprintln!("usage: simabi run|replay ...");
            std::process::exit(2);
        }
    }
}
