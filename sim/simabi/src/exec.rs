//! Plans, the two worlds (direct / through the ABI), the simulator's executor, and the oracles of C09.
use crate::iface::*;
use crate::world::{self, fault_point, log, Guard, Payload, WORLD};
use savefile_abi::AbiConnection;
use serde_json::{json, Value};
use simcore::Rng;
use std::collections::BTreeMap;
use std::future::Future;
use std::panic::{catch_unwind, AssertUnwindSafe};
use std::pin::Pin;
use std::sync::Arc;
use std::task::{Context, Poll, Wake, Waker};

#[derive(Clone, Debug)]
pub struct Plan {
    pub ops: Vec<Vec<i64>>,        // [opcode, args...]
    pub faults: Vec<(u64, Payload)>, // (fault point index, payload kind)
    pub seed: u64,
}
pub const OP_NAMES: [&str; 40] = [
    "new_conn", "drop_conn", "add", "echo_string", "echo_vec", "sum_ref", "len_ref", "count_str", "sum_slice", "try_div", "bump", "many",
    "call_fn", "call_fnmut", "take_boxed_fn", "call_stored", "drop_stored", "take_leaf", "ping_leaves", "drop_leaves", "make_leaf", "use_leaf",
    "drop_leaf", "make_fn", "use_fn", "drop_fn", "spawn", "poll", "fire", "cancel", "join", "concat", "spawn_async", "deref", "map_reading", "pad", "spawn_lazy", "spawn_small", "skew_enum", "fill",
];
pub fn op_code(name: &str) -> i64 {
    OP_NAMES.iter().position(|n| *n == name).map(|x| x as i64).unwrap_or(2)
}
impl Plan {
    pub fn to_json(&self) -> Value {
        json!({
            "ops": self.ops.iter().map(|o| {
                let mut v = vec![json!(OP_NAMES[(o[0] as usize) % OP_NAMES.len()])];
                v.extend(o[1..].iter().map(|x| json!(x)));
                Value::Array(v)
            }).collect::<Vec<_>>(),
            "faults": self.faults.iter().map(|(n, p)| json!([n, p.name()])).collect::<Vec<_>>(),
        })
    }
    pub fn from_json(v: &Value, seed: u64) -> Plan {
        let ops = simcore::jarr(v, "ops")
            .iter()
            .filter_map(|o| {
                let a = o.as_array()?;
                let mut r = vec![op_code(a.first()?.as_str()?)];
                r.extend(a[1..].iter().map(|x| x.as_i64().unwrap_or(0)));
                while r.len() < 4 {
                    r.push(0);
                }
                Some(r)
            })
            .collect();
        let faults = simcore::jarr(v, "faults")
            .iter()
            .filter_map(|f| {
                let a = f.as_array()?;
                Some((a.first()?.as_u64()?, Payload::from_name(a.get(1)?.as_str()?)))
            })
            .collect();
        Plan { ops, faults, seed }
    }
}

// ---------------------------------------------------------------------------------------------
// the simulator's executor: tasks, per-poll wakers (only the most recent waker of a task is honoured,
// which is all the Future contract promises), explicit poll / spurious poll / fire / cancel steps
// ---------------------------------------------------------------------------------------------
struct TaskWaker {
    task: usize,
    gen: u64,
}
impl Wake for TaskWaker {
    fn wake(self: Arc<Self>) {
        self.wake_by_ref()
    }
    fn wake_by_ref(self: &Arc<Self>) {
        let _ = WORLD.try_with(|w| {
            if let Ok(mut w) = w.try_borrow_mut() {
                w.wakes += 1;
                w.woken.insert((self.task, self.gen));
            }
        });
    }
}
/// owner of the connection an `#[async_trait]` future borrows from; dropped after the future
struct Owner(*mut Box<dyn ASvc>);
impl Drop for Owner {
    fn drop(&mut self) {
        unsafe { drop(Box::from_raw(self.0)) }
    }
}
struct Task {
    fut: Option<Pin<Box<dyn Future<Output = u32>>>>,
    owner: Option<Owner>,
    gen: u64,
    wakers: Vec<Arc<TaskWaker>>,
    done: bool,
    polls: u32,
    /// true: the executor hands the SAME waker to every poll of this task and honours every wake of it (what
    /// ordinary executors do); false: a new waker per poll and only the most recent one is honoured (all the Future
    /// contract promises)
    stable: bool,
}
impl Task {
    fn is_woken(&self, idx: usize) -> bool {
        let g = if self.stable { 0 } else { self.gen };
        WORLD.with(|w| w.borrow().woken.contains(&(idx, g)))
    }
}

#[derive(Default, Clone, Debug, PartialEq)]
pub struct OpRecord {
    pub op: String,
    pub events: Vec<String>,
    pub drops: Vec<String>,
    pub result: String,
}
#[derive(Default)]
pub struct RunLog {
    pub ops: Vec<OpRecord>,
    pub leaks: Vec<String>,
    pub double_drops: Vec<String>,
    pub waker_leaks: u64,
    pub lost_wakeups: Vec<String>,
    pub fired: Vec<(u64, String, Payload)>,
    pub fp_total: u64,
    pub stale_wakes: u64,
    pub wakes: u64,
    pub steps: u64,
    pub probes: Vec<&'static str>,
}

pub enum WorldKind {
    Direct,
    Abi,
}
/// `alt`: connect the caller's `dyn Svc` to the entry point of the alternative implementation-side definition
/// (`iface::alt::Svc`: other method order and numbers, newer version, different layout of one by-reference argument)
fn new_conn(kind: &WorldKind, alt: bool) -> Result<Box<dyn Svc>, String> {
    match kind {
        WorldKind::Direct => Ok(Box::new(SvcImpl::new())),
        WorldKind::Abi => {
            let r = if alt {
                let imp: Box<dyn crate::iface::alt::Svc> = Box::new(SvcImpl::new());
                unsafe { AbiConnection::<dyn Svc>::from_boxed_trait_for_test(<dyn crate::iface::alt::Svc as savefile_abi::AbiExportable>::ABI_ENTRY, imp) }
            } else {
                let imp: Box<dyn Svc> = Box::new(SvcImpl::new());
                AbiConnection::<dyn Svc>::from_boxed_trait(imp)
            };
            match r {
                Ok(c) => Ok(Box::new(c)),
                Err(e) => Err(format!("{:?}", e)),
            }
        }
    }
}
fn new_aconn(kind: &WorldKind) -> Result<Box<dyn ASvc>, String> {
    let imp: Box<dyn ASvc> = Box::new(ASvcImpl::new());
    match kind {
        WorldKind::Direct => Ok(imp),
        WorldKind::Abi => match AbiConnection::<dyn ASvc>::from_boxed_trait(imp) {
            Ok(c) => Ok(Box::new(c)),
            Err(e) => Err(format!("{:?}", e)),
        },
    }
}
fn gen_bytes(seed: i64, len: usize) -> Vec<u8> {
    let mut r = Rng::new(seed as u64 ^ 0xabcdef);
    r.bytes(len)
}
fn gen_string(seed: i64, len: usize) -> String {
    let mut r = Rng::new(seed as u64 ^ 0x5151);
    (0..len).map(|_| (b'a' + r.below(26) as u8) as char).collect()
}
fn digest(b: &[u8]) -> String {
    format!("len={} h={:08x}", b.len(), simcore::fnv_bytes(b) as u32)
}
fn classify_panic(p: Box<dyn std::any::Any + Send>, injected_now: bool) -> String {
    let msg: Option<String> = if let Some(s) = p.downcast_ref::<&str>() {
        Some(s.to_string())
    } else {
        p.downcast_ref::<String>().cloned()
    };
    // what was injected most recently tells us which token to look for
    let last = if injected_now { WORLD.with(|w| w.borrow().fired.last().cloned()) } else { None };
    match (msg, last) {
        (Some(m), Some((n, _name, pk))) => match world::token_for(n, pk) {
            Some(tok) => {
                if m.contains(&tok) {
                    format!("panic carrying {}", tok)
                } else {
                    format!("panic WITHOUT its message (expected {}, got: {})", tok, m.chars().take(100).collect::<String>())
                }
            }
            None => "panic(non-string payload)".to_string(),
        },
        (None, Some(_)) => "panic(non-string payload)".to_string(),
        (Some(m), None) => format!("panic(not injected): {}", m.chars().take(160).collect::<String>()),
        (None, None) => "panic(not injected, non-string)".to_string(),
    }
}

pub fn run_world(plan: &Plan, kind: WorldKind) -> RunLog {
    let mut panics = BTreeMap::new();
    for (n, p) in &plan.faults {
        panics.insert(*n, *p);
    }
    world::reset(panics);
    let _ = simcore::take_panic();
    let mut out = RunLog::default();
    let mut conns: Vec<Option<Box<dyn Svc>>> = Vec::new();
    let mut leaves: Vec<Option<Box<dyn Leaf>>> = Vec::new();
    let mut fns: Vec<Option<Box<dyn Fn(u32) -> u32>>> = Vec::new();
    let mut tasks: Vec<Task> = Vec::new();
    let mut max_event: u32 = 0;
    // every run starts with one connection
    match new_conn(&kind, false) {
        Ok(c) => conns.push(Some(c)),
        Err(e) => {
            out.ops.push(OpRecord { op: "initial new_conn".into(), events: vec![], drops: vec![], result: format!("error {}", e) });
        }
    }
    let (ev, dr) = world::take_logs();
    out.ops.push(OpRecord { op: "setup".into(), events: ev, drops: dr, result: "ok".into() });

    fn pick<T>(v: &[Option<T>], i: i64) -> Option<usize> {
        if v.is_empty() {
            return None;
        }
        let idx = (i.unsigned_abs() as usize) % v.len();
        if v[idx].is_some() {
            Some(idx)
        } else {
            None
        }
    }

    for op in &plan.ops {
        let code = (op[0] as usize) % OP_NAMES.len();
        let name = OP_NAMES[code];
        let (a, b, c) = (op[1], op[2], op[3]);
        out.steps += 1;
        let fired_before = WORLD.with(|w| w.borrow().fired.len());
        let res: Result<String, Box<dyn std::any::Any + Send>> = catch_unwind(AssertUnwindSafe(|| -> String {
            match name {
                "new_conn" => {
                    if conns.len() >= 3 {
                        return "noop".into();
                    }
                    match new_conn(&kind, a % 2 == 1) {
                        Ok(cn) => {
                            conns.push(Some(cn));
                            "ok".into()
                        }
                        Err(e) => format!("error {}", e),
                    }
                }
                "drop_conn" => match pick(&conns, a) {
                    Some(i) if conns.iter().filter(|x| x.is_some()).count() > 1 => {
                        conns[i] = None;
                        "ok".into()
                    }
                    _ => "noop".into(),
                },
                "add" | "deref" | "map_reading" | "join" | "concat" | "echo_string" | "echo_vec" | "sum_ref" | "pad" | "fill" | "len_ref" | "count_str" | "sum_slice" | "try_div" | "many" | "call_stored" | "ping_leaves" => {
                    let Some(i) = pick(&conns, a) else { return "noop".into() };
                    let svc: &dyn Svc = &**conns[i].as_ref().unwrap();
                    match name {
                        "add" => format!("ok {}", svc.add(b as u32, c as u32)),
                        "echo_string" => {
                            let s = gen_string(c, (b.unsigned_abs() % 1100) as usize);
                            let r = svc.echo_string(s.clone());
                            format!("ok {} same={}", digest(r.as_bytes()), r == s)
                        }
                        "deref" => {
                            let x = b as u32;
                            format!("ok {}", svc.deref(&x))
                        }
                        "map_reading" => {
                            let g = Guard::new("closure(caller-ref-arg)");
                            let f = |r: Reading| -> Reading {
                                let g = &g;
                                fault_point("cbreading.call");
                                log(format!("cbreading.call {:?} g={}", r, g.kind()));
                                Reading { value: r.value.wrapping_mul(3), unit: format!("{}!", r.unit) }
                            };
                            let out = svc.map_reading(&f, Reading { value: b as u32, unit: gen_string(c, (c.unsigned_abs() % 70) as usize) });
                            format!("ok {} {}", out.value, digest(out.unit.as_bytes()))
                        }
                        "join" => {
                            let s = gen_string(c, (b.unsigned_abs() % 200) as usize);
                            let (r, t) = svc.join(s.clone(), c as u32);
                            format!("ok {} same={} tag={}", digest(r.as_bytes()), r == s, t)
                        }
                        "concat" => {
                            let s1 = gen_string(c, (b.unsigned_abs() % 200) as usize);
                            let s2 = gen_string(c + 1, (c.unsigned_abs() % 90) as usize);
                            let r = svc.concat(s1, s2);
                            format!("ok {}", digest(r.as_bytes()))
                        }
                        "echo_vec" => {
                            let v = gen_bytes(c, (b.unsigned_abs() % 1100) as usize);
                            let r = svc.echo_vec(v);
                            format!("ok {}", digest(&r))
                        }
                        "sum_ref" => {
                            let p = Packed3 { a: b as u64, b: c as u64, c: 7 };
                            format!("ok {}", svc.sum_ref(&p))
                        }
                        "fill" => {
                            // the implementation writes into the caller's buffer through &mut dyn BufMut; a Vec that just
                            // grew offers 64-byte chunks, one with a reserve offers it all at once
                            let n = (b.unsigned_abs() % 400) as u32;
                            let mut v: Vec<u8> = if c % 2 == 0 { Vec::new() } else { Vec::with_capacity((c.unsigned_abs() % 300) as usize) };
                            svc.fill(&mut v, n, c as u32);
                            format!("ok {}", digest(&v))
                        }
                        "pad" => {
                            // the bytes between `b` and the end of the struct are padding: give them a recognisable
                            // content (a callee that reads them as a field it thinks exists will show it)
                            let mut m = std::mem::MaybeUninit::<PadRec>::uninit();
                            unsafe {
                                std::ptr::write_bytes(m.as_mut_ptr() as *mut u8, 0xAB, std::mem::size_of::<PadRec>());
                                std::ptr::addr_of_mut!((*m.as_mut_ptr()).a).write(b as u64);
                                std::ptr::addr_of_mut!((*m.as_mut_ptr()).b).write(c as u8);
                            }
                            let p: &PadRec = unsafe { &*m.as_ptr() };
                            format!("ok {}", svc.pad(p))
                        }
                        "len_ref" => {
                            let r = Rec { name: gen_string(c, (b.unsigned_abs() % 200) as usize), items: vec![1, 2, 3, (c & 0xffff) as u16], flag: c % 2 == 0 };
                            format!("ok {}", svc.len_ref(&r))
                        }
                        "count_str" => {
                            let s = gen_string(c, (b.unsigned_abs() % 300) as usize);
                            format!("ok {}", svc.count_str(&s))
                        }
                        "sum_slice" => {
                            let v: Vec<u32> = (0..(b.unsigned_abs() % 200) as u32).map(|x| x.wrapping_mul(c as u32)).collect();
                            format!("ok {}", svc.sum_slice(&v))
                        }
                        "try_div" => format!("ok {:?}", svc.try_div(b as u32, (c % 3) as u32)),
                        "many" => {
                            let v = gen_bytes(b, 64);
                            let arr: [u8; 64] = v.try_into().unwrap();
                            format!("ok {}", call_many(svc, &arr))
                        }
                        "call_stored" => format!("ok {}", svc.call_stored(b as u32)),
                        _ => format!("ok {}", svc.ping_leaves(b as u32)),
                    }
                }
                "bump" | "take_boxed_fn" | "drop_stored" | "take_leaf" | "drop_leaves" => {
                    let Some(i) = pick(&conns, a) else { return "noop".into() };
                    let svc: &mut dyn Svc = &mut **conns[i].as_mut().unwrap();
                    match name {
                        "bump" => format!("ok {}", svc.bump(b as u32)),
                        "take_boxed_fn" => {
                            let g = Guard::new("closure(caller-owned-arg)");
                            let k = b as u32;
                            let f = Box::new(move |x: u32| {
                                let g = &g;
                                fault_point("boxed_fn.call");
                                log(format!("boxedfn{}.call x={} g={}", k, x, g.kind()));
                                x.wrapping_add(k)
                            });
                            format!("ok {}", svc.take_boxed_fn(f))
                        }
                        "drop_stored" => format!("ok {}", svc.drop_stored()),
                        "take_leaf" => {
                            let l = Box::new(LeafObj { guard: Guard::new("leaf(caller-made)"), tag: b as u32 % 1000 });
                            format!("ok {}", svc.take_leaf(l, c as u32))
                        }
                        _ => format!("ok {}", svc.drop_leaves()),
                    }
                }
                "call_fn" => {
                    let Some(i) = pick(&conns, a) else { return "noop".into() };
                    let svc: &dyn Svc = &**conns[i].as_ref().unwrap();
                    let g = Guard::new("closure(caller-ref-arg)");
                    let mode = b.unsigned_abs() % 3;
                    let other: Option<&dyn Svc> = conns.iter().flatten().map(|x| &**x).nth(1);
                    let f = |x: u32| -> u32 {
                        let g = &g;
                        // in the re-entrant mode a local of the callback calls into the connection when it is dropped -
                        // also when that happens because the callback is unwinding
                        struct CallOnDrop<'a>(Option<&'a dyn Svc>);
                        impl Drop for CallOnDrop<'_> {
                            fn drop(&mut self) {
                                if let Some(s) = self.0 {
                                    let _ = s.add(7, 7);
                                }
                            }
                        }
                        let _d = CallOnDrop(if mode == 1 { Some(svc) } else { None });
                        fault_point("cb.call");
                        log(format!("cb.call x={} mode={} g={}", x, mode, g.kind()));
                        match mode {
                            1 => svc.add(x, 1), // re-entrant call into the same connection
                            2 => match other {
                                Some(o) => o.add(x, 2),
                                None => x + 2,
                            },
                            _ => x.wrapping_mul(2),
                        }
                    };
                    format!("ok {}", svc.call_fn(&f, c as u32))
                }
                "call_fnmut" => {
                    let Some(i) = pick(&conns, a) else { return "noop".into() };
                    let svc: &dyn Svc = &**conns[i].as_ref().unwrap();
                    let g = Guard::new("closure(caller-mut-arg)");
                    let mut state = 0u32;
                    let mut f = |x: u32| -> u32 {
                        let g = &g;
                        fault_point("cbmut.call");
                        state = state.wrapping_add(x + 1);
                        log(format!("cbmut.call x={} state={} g={}", x, state, g.kind()));
                        state
                    };
                    let r = svc.call_fnmut(&mut f, b as u32);
                    format!("ok {} state={}", r, state)
                }
                "make_leaf" => {
                    let Some(i) = pick(&conns, a) else { return "noop".into() };
                    if leaves.len() >= 4 {
                        return "noop".into();
                    }
                    let l = conns[i].as_ref().unwrap().make_leaf(b as u32 % 1000);
                    leaves.push(Some(l));
                    "ok".into()
                }
                "use_leaf" => match pick(&leaves, a) {
                    Some(i) => {
                        let l = leaves[i].as_ref().unwrap();
                        let n = l.name();
                        format!("ok {} {}", l.ping(b as u32), digest(n.as_bytes()))
                    }
                    None => "noop".into(),
                },
                "drop_leaf" => match pick(&leaves, a) {
                    Some(i) => {
                        leaves[i] = None;
                        "ok".into()
                    }
                    None => "noop".into(),
                },
                "make_fn" => {
                    let Some(i) = pick(&conns, a) else { return "noop".into() };
                    if fns.len() >= 4 {
                        return "noop".into();
                    }
                    let f = conns[i].as_ref().unwrap().make_fn(b as u32 % 100);
                    fns.push(Some(f));
                    "ok".into()
                }
                "use_fn" => match pick(&fns, a) {
                    Some(i) => format!("ok {}", (fns[i].as_ref().unwrap())(b as u32)),
                    None => "noop".into(),
                },
                "drop_fn" => match pick(&fns, a) {
                    Some(i) => {
                        fns[i] = None;
                        "ok".into()
                    }
                    None => "noop".into(),
                },
                "spawn" => {
                    let Some(i) = pick(&conns, a) else { return "noop".into() };
                    if tasks.len() >= 6 {
                        return "noop".into();
                    }
                    let ev = (b.unsigned_abs() % 8) as u32;
                    let stages = 1 + (c.unsigned_abs() % 3) as u32;
                    max_event = max_event.max(ev + stages);
                    let f = conns[i].as_ref().unwrap().fut(ev, stages);
                    tasks.push(Task { fut: Some(f), owner: None, gen: 0, wakers: vec![], done: false, polls: 0, stable: false });
                    // a new task is runnable
                    let idx = tasks.len() - 1;
                    WORLD.with(|w| w.borrow_mut().woken.insert((idx, 0)));
                    "ok".into()
                }
                "skew_enum" => {
                    use crate::iface::skew::{newer, older};
                    use older::EnumSvc as _;
                    let x = b as u32;
                    let which = a.unsigned_abs() % 3;
                    match kind {
                        WorldKind::Direct => {
                            // what the pair (newer caller, older implementation) must amount to
                            let imp = older::OldImpl(Guard::new("svc-old"));
                            match which {
                                0 => format!("ok {}", imp.tag(&older::Sig::A(x))),
                                1 => format!("ok {}", imp.tag(&older::Sig::B(x))),
                                _ => "refused".to_string(),
                            }
                        }
                        WorldKind::Abi => {
                            use newer::EnumSvc as _;
                            let imp: Box<dyn older::EnumSvc> = Box::new(older::OldImpl(Guard::new("svc-old")));
                            let conn = match unsafe { AbiConnection::<dyn newer::EnumSvc>::from_boxed_trait_for_test(<dyn older::EnumSvc as savefile_abi::AbiExportable>::ABI_ENTRY, imp) } {
                                Ok(c) => c,
                                Err(e) => return format!("error {:?}", e),
                            };
                            let arg = match which {
                                0 => newer::Sig::A(x),
                                1 => newer::Sig::B(x),
                                _ => newer::Sig::C(x),
                            };
                            if which < 2 {
                                format!("ok {}", conn.tag(&arg))
                            } else {
                                match catch_unwind(AssertUnwindSafe(|| conn.tag(&arg))) {
                                    Ok(v) => format!("ACCEPTED a variant the implementation does not know: it returned {}", v),
                                    Err(_) => {
                                        let _ = simcore::take_panic();
                                        "refused".to_string()
                                    }
                                }
                            }
                        }
                    }
                }
                "spawn_small" => {
                    // futures whose output is a bool / a char (one and four bytes, with bit patterns that are not values)
                    let Some(i) = pick(&conns, a) else { return "noop".into() };
                    if tasks.len() >= 6 {
                        return "noop".into();
                    }
                    let ev = (b.unsigned_abs() % 8) as u32;
                    max_event = max_event.max(ev + 1);
                    let f: Pin<Box<dyn Future<Output = u32>>> = if c % 3 == 2 {
                        let inner = conns[i].as_ref().unwrap().fut_unpin(ev);
                        Box::pin(async move { inner.await as u32 })
                    } else if c % 2 == 0 {
                        let inner = conns[i].as_ref().unwrap().fut_bool(ev);
                        Box::pin(async move { inner.await as u32 })
                    } else {
                        let inner = conns[i].as_ref().unwrap().fut_char(ev);
                        Box::pin(async move { inner.await as u32 })
                    };
                    tasks.push(Task { fut: Some(f), owner: None, gen: 0, wakers: vec![], done: false, polls: 0, stable: false });
                    let idx = tasks.len() - 1;
                    WORLD.with(|w| w.borrow_mut().woken.insert((idx, 0)));
                    "ok".into()
                }
                "spawn_lazy" => {
                    // a future that registers the waker of its FIRST poll for all its events and never again; legal
                    // with an executor that keeps handing out the same waker, so this task gets a stable waker
                    let Some(i) = pick(&conns, a) else { return "noop".into() };
                    if tasks.len() >= 6 {
                        return "noop".into();
                    }
                    let ev = (b.unsigned_abs() % 8) as u32;
                    let stages = 2 + (c.unsigned_abs() % 2) as u32;
                    max_event = max_event.max(ev + stages);
                    let f = conns[i].as_ref().unwrap().fut(ev, 100 + stages);
                    tasks.push(Task { fut: Some(f), owner: None, gen: 0, wakers: vec![], done: false, polls: 0, stable: true });
                    let idx = tasks.len() - 1;
                    WORLD.with(|w| w.borrow_mut().woken.insert((idx, 0)));
                    "ok".into()
                }
                "spawn_async" => {
                    if tasks.len() >= 6 {
                        return "noop".into();
                    }
                    let ev = (b.unsigned_abs() % 8) as u32;
                    max_event = max_event.max(ev + 1);
                    let conn = match new_aconn(&kind) {
                        Ok(c) => c,
                        Err(e) => return format!("error {}", e),
                    };
                    // the future borrows the connection: keep the connection alive (and drop it) together with the task
                    let raw: *mut Box<dyn ASvc> = Box::into_raw(Box::new(conn));
                    let owner = Owner(raw);
                    let fut: Pin<Box<dyn Future<Output = u32> + Send + '_>> = if c % 2 == 0 {
                        unsafe { (*raw).aget(ev, c as u32) }
                    } else {
                        unsafe { (*raw).aset(ev, gen_string(c, (c.unsigned_abs() % 130) as usize)) }
                    };
                    let fut: Pin<Box<dyn Future<Output = u32>>> = unsafe { std::mem::transmute(fut) };
                    tasks.push(Task { fut: Some(fut), owner: Some(owner), gen: 0, wakers: vec![], done: false, polls: 0, stable: false });
                    let idx = tasks.len() - 1;
                    WORLD.with(|w| w.borrow_mut().woken.insert((idx, 0)));
                    "ok".into()
                }
                "poll" => {
                    if tasks.is_empty() {
                        return "noop".into();
                    }
                    let t = (a.unsigned_abs() as usize) % tasks.len();
                    let spurious = b % 2 != 0;
                    if tasks[t].fut.is_none() {
                        return "noop".into();
                    }
                    if !spurious && !tasks[t].is_woken(t) {
                        return "not-woken".into();
                    }
                    poll_task(&mut tasks, t)
                }
                "fire" => {
                    let e = (a.unsigned_abs() % 11) as u32;
                    let n = world::fire(e);
                    format!("ok woke={}", n)
                }
                "cancel" => {
                    if tasks.is_empty() {
                        return "noop".into();
                    }
                    let t = (a.unsigned_abs() as usize) % tasks.len();
                    if tasks[t].fut.is_none() {
                        return "noop".into();
                    }
                    tasks[t].fut = None;
                    tasks[t].owner = None;
                    tasks[t].done = true;
                    "ok cancelled".into()
                }
                _ => "noop".into(),
            }
        }));
        let result = match res {
            Ok(s) => s,
            Err(p) => {
                let injected_now = WORLD.with(|w| w.borrow().fired.len()) > fired_before;
                classify_panic(p, injected_now)
            }
        };
        // a future whose poll panicked is dead
        let (ev, dr) = world::take_logs();
        out.ops.push(OpRecord { op: format!("{} {} {} {}", name, a, b, c), events: ev, drops: dr, result });
    }

    // ---- faults stop here; bounded liveness: fire everything outstanding, poll woken tasks only ----
    world::set_faults_enabled(false);
    let mut finish_events = Vec::new();
    for e in 0..=max_event.max(11) {
        if !world::event_fired(e) {
            world::fire(e);
        }
    }
    let live = tasks.iter().filter(|t| t.fut.is_some()).count() as u64;
    let mut budget = (live + 1) * 4 * 4;
    loop {
        let mut progressed = false;
        for t in 0..tasks.len() {
            if tasks[t].fut.is_some() && tasks[t].is_woken(t) {
                let r = catch_unwind(AssertUnwindSafe(|| poll_task(&mut tasks, t)));
                finish_events.push(format!("finish poll t{} -> {}", t, r.unwrap_or_else(|_| "panic".into())));
                progressed = true;
                out.steps += 1;
            }
        }
        if !progressed || budget == 0 {
            break;
        }
        budget -= 1;
    }
    for (t, task) in tasks.iter().enumerate() {
        if task.fut.is_some() {
            out.lost_wakeups.push(format!("task {} still pending after all events fired and every woken task was polled (polls={}, gen={})", t, task.polls, task.gen));
        }
    }
    let (mut ev, dr) = world::take_logs();
    finish_events.append(&mut ev);
    out.ops.push(OpRecord { op: "finish".into(), events: finish_events, drops: dr, result: "ok".into() });

    // ---- teardown: the caller drops everything it holds ----
    let r = catch_unwind(AssertUnwindSafe(|| {
        for t in tasks.iter_mut() {
            t.fut = None;
            t.owner = None;
        }
        fns.clear();
        leaves.clear();
        conns.clear();
    }));
    let (ev, dr) = world::take_logs();
    out.ops.push(OpRecord { op: "teardown".into(), events: ev, drops: dr, result: if r.is_ok() { "ok".into() } else { "panic".into() } });
    // waker conservation: the executor's own Arc must be the only reference left
    world::forget_wakers_of(&world::dead_future_ids());
    for t in &tasks {
        for w in &t.wakers {
            if Arc::strong_count(w) != 1 {
                out.waker_leaks += (Arc::strong_count(w) - 1) as u64;
            }
        }
    }
    WORLD.with(|w| {
        let w = w.borrow();
        for (id, (kind, drops)) in w.ledger.iter().enumerate() {
            if *drops == 0 {
                out.leaks.push(format!("{}#{}", kind, id));
            }
        }
        out.double_drops = w.double_drops.clone();
        out.fired = w.fired.clone();
        out.fp_total = w.fp_counter;
        out.stale_wakes = w.stale_wakes;
        out.wakes = w.wakes;
    });
    out
}

fn poll_task(tasks: &mut [Task], t: usize) -> String {
    let task = &mut tasks[t];
    task.polls += 1;
    let tw = if task.stable {
        // consume the wake-up that made this poll happen; wakes during or after the poll count for the next one
        WORLD.with(|w| w.borrow_mut().woken.remove(&(t, 0)));
        if task.wakers.is_empty() {
            task.wakers.push(Arc::new(TaskWaker { task: t, gen: 0 }));
        }
        task.wakers[0].clone()
    } else {
        task.gen += 1;
        let tw = Arc::new(TaskWaker { task: t, gen: task.gen });
        task.wakers.push(tw.clone());
        tw
    };
    let waker = Waker::from(tw);
    let mut cx = Context::from_waker(&waker);
    let mut fut = task.fut.take().unwrap();
    let r = catch_unwind(AssertUnwindSafe(|| fut.as_mut().poll(&mut cx)));
    match r {
        Ok(Poll::Ready(v)) => {
            task.done = true;
            drop(fut);
            task.owner = None;
            format!("ready {}", v)
        }
        Ok(Poll::Pending) => {
            task.fut = Some(fut);
            "pending".into()
        }
        Err(p) => {
            // a future that panicked in poll must not be polled again: drop it
            task.done = true;
            let _ = catch_unwind(AssertUnwindSafe(|| drop(fut)));
            task.owner = None;
            format!("poll-{}", classify_panic(p, true))
        }
    }
}

// ---------------------------------------------------------------------------------------------
// judgement
// ---------------------------------------------------------------------------------------------
pub struct Violation {
    pub oracle: String,
    pub detail: String,
    pub site: String,
    pub fault_kind: String,
}
pub struct Judged {
    pub violation: Option<Violation>,
    pub abi: RunLog,
    pub log_hash: u64,
    pub harness_error: Option<String>,
}
pub fn run_and_judge(plan: &Plan) -> Judged {
    let direct = run_world(plan, WorldKind::Direct);
    let abi = run_world(plan, WorldKind::Abi);
    let mut h = simcore::Fnv::new();
    for o in &abi.ops {
        h.str(&o.op);
        for e in &o.events {
            h.str(e);
        }
        for d in &o.drops {
            h.str(d);
        }
        h.str(&o.result);
    }
    let fault_kind = abi.fired.first().map(|f| format!("panic-{}", f.2.name())).unwrap_or_else(|| "none".into());
    let fault_site = abi.fired.first().map(|f| f.1.clone()).unwrap_or_else(|| "-".into());
    let mut harness_error = None;
    // the direct world is the reference: it must itself be conservative and live, otherwise the harness is wrong
    if !direct.leaks.is_empty() || !direct.double_drops.is_empty() || !direct.lost_wakeups.is_empty() || direct.waker_leaks > 0 {
        harness_error = Some(format!("direct world not clean: leaks={:?} double={:?} lost={:?} wakerleaks={}", direct.leaks, direct.double_drops, direct.lost_wakeups, direct.waker_leaks));
    }
    let mut violation = None;
    if harness_error.is_none() {
        // 1. refinement, operation by operation
        for (i, (d, a)) in direct.ops.iter().zip(abi.ops.iter()).enumerate() {
            if d != a {
                let what = if d.result != a.result {
                    if a.result.contains("WITHOUT its message") {
                        "panic-message-lost"
                    } else {
                        "result-differs"
                    }
                } else if d.events != a.events {
                    "observed-events-differ"
                } else {
                    "drops-differ"
                };
                let opname = d.op.split(' ').next().unwrap_or("?").to_string();
                violation = Some(Violation {
                    oracle: format!("C09.refinement.{}", what),
                    detail: format!("op #{} `{}`: direct world: result={:?} events={:?} drops={:?} | through the ABI: result={:?} events={:?} drops={:?}", i, d.op, d.result, d.events, d.drops, a.result, a.events, a.drops),
                    site: opname,
                    fault_kind: fault_kind.clone(),
                });
                break;
            }
        }
        if violation.is_none() && direct.ops.len() != abi.ops.len() {
            violation = Some(Violation { oracle: "C09.refinement.length".into(), detail: "op record counts differ".into(), site: "-".into(), fault_kind: fault_kind.clone() });
        }
        if violation.is_none() && !abi.double_drops.is_empty() {
            violation = Some(Violation { oracle: "C09.conservation.double-drop".into(), detail: format!("dropped more than once: {:?}", abi.double_drops), site: abi.double_drops[0].split('#').next().unwrap_or("?").into(), fault_kind: fault_kind.clone() });
        }
        if violation.is_none() && !abi.leaks.is_empty() {
            violation = Some(Violation { oracle: "C09.conservation.leak".into(), detail: format!("never dropped although the caller released everything: {:?} (fault at {})", abi.leaks, fault_site), site: abi.leaks[0].split('#').next().unwrap_or("?").into(), fault_kind: fault_kind.clone() });
        }
        if violation.is_none() && abi.waker_leaks > 0 {
            violation = Some(Violation { oracle: "C09.conservation.waker-leak".into(), detail: format!("{} waker reference(s) handed to futures through the ABI were never released", abi.waker_leaks), site: "waker".into(), fault_kind: fault_kind.clone() });
        }
        if violation.is_none() && !abi.lost_wakeups.is_empty() {
            violation = Some(Violation { oracle: "C09.liveness.lost-wakeup".into(), detail: abi.lost_wakeups.join("; "), site: "future".into(), fault_kind: fault_kind.clone() });
        }
    }
    Judged { violation, abi, log_hash: h.0, harness_error }
}

// ---------------------------------------------------------------------------------------------
// generation
// ---------------------------------------------------------------------------------------------
pub fn gen_plan(seed: u64) -> Plan {
    let mut rng = Rng::new(seed);
    let n_ops = rng.range(3, 30);
    // swarm: each run enables its own subset of operation families
    let fam_data = rng.chance(3, 4);
    let fam_cb = rng.chance(3, 4);
    let fam_owned = rng.chance(3, 4);
    let fam_fut = rng.chance(2, 3);
    let fam_conn = rng.chance(1, 2);
    let mut pool: Vec<&str> = vec!["add"];
    if fam_data {
        pool.extend(["deref", "map_reading", "echo_string", "echo_string", "join", "join", "concat", "concat", "echo_vec", "sum_ref", "pad", "skew_enum", "fill", "fill", "len_ref", "count_str", "sum_slice", "try_div", "bump", "many"]);
    }
    if fam_cb {
        pool.extend(["call_fn", "call_fn", "call_fnmut"]);
    }
    if fam_owned {
        pool.extend(["take_boxed_fn", "take_boxed_fn", "call_stored", "drop_stored", "take_leaf", "take_leaf", "ping_leaves", "drop_leaves", "make_leaf", "use_leaf", "drop_leaf", "make_fn", "use_fn", "drop_fn"]);
    }
    if fam_fut {
        pool.extend(["spawn", "spawn", "spawn_lazy", "spawn_small", "spawn_async", "spawn_async", "poll", "poll", "poll", "poll", "fire", "fire", "cancel"]);
    }
    if fam_conn {
        pool.extend(["new_conn", "new_conn", "drop_conn"]);
    }
    let sizes: [i64; 18] = [0, 1, 36, 40, 43, 44, 45, 47, 48, 51, 52, 53, 56, 60, 63, 64, 65, 200];
    let mut ops = Vec::new();
    for _ in 0..n_ops {
        let name = *rng.pick(&pool);
        let a = rng.below(6) as i64;
        let b = match name {
            "echo_string" | "echo_vec" | "count_str" | "len_ref" | "join" | "concat" => {
                if rng.chance(2, 3) {
                    *rng.pick(&sizes)
                } else {
                    rng.below(1000) as i64
                }
            }
            "poll" => rng.below(4) as i64, // odd = spurious
            _ => rng.below(1000) as i64,
        };
        let c = rng.below(100000) as i64;
        ops.push(vec![op_code(name), a, b, c]);
    }
    // faults: estimate the number of fault points by a dry run of the direct world without faults
    let dry = run_world(&Plan { ops: ops.clone(), faults: vec![], seed }, WorldKind::Direct);
    let total = dry.fp_total.max(1);
    let n_faults = match rng.below(10) {
        0..=2 => 0,
        3..=7 => 1,
        8 => 2,
        _ => 3,
    };
    let mut faults = Vec::new();
    for _ in 0..n_faults {
        let p = match rng.below(3) {
            0 => Payload::Str,
            1 => Payload::Fmt,
            _ => {
                if rng.chance(1, 3) {
                    Payload::Long
                } else {
                    Payload::Any
                }
            }
        };
        faults.push((rng.below(total + 2), p));
    }
    faults.sort_by_key(|f| f.0);
    faults.dedup_by_key(|f| f.0);
    Plan { ops, faults, seed }
}
