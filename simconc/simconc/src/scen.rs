//! The C16 scenario, shared by the shuttle engine (simconc) and the std-thread engine that runs under Miri
//! (cfg simconc_std): workloads, the sequential specification of the shared object, the per-thread
//! interpreter and the scenario body.
#![allow(dead_code)]
use crate::ifaces::*;
use savefile_abi::{AbiConnection, AbiExportable};
#[cfg(not(simconc_std))]
use savefile_abi_min_lib::{AdderCallback, AdderInterface};
use serde_json::{json, Value};
#[cfg(not(simconc_std))]
use shuttle::sync::Mutex as SMutex;
#[cfg(simconc_std)]
use std::sync::Mutex as SMutex;
use simcore::Rng;
use stateright::semantics::{ConsistencyTester, LinearizabilityTester, SequentialSpec};
use std::sync::atomic::{AtomicU64, Ordering};
use std::sync::Arc;

// ---------------------------------------------------------------------------------------------
// workload (generated outside shuttle, explicit data)
// ---------------------------------------------------------------------------------------------
#[derive(Clone, Debug, PartialEq)]
pub struct Workload {
    pub threads: Vec<Vec<Vec<i64>>>, // thread -> ops -> [code, a, b]
}
pub const OPS: [&str; 18] = [
    "create_a_same", "create_a_old_caller", "create_a_new_caller", "create_b", "call", "call_cb", "call_mk", "call_take", "shared_inc", "shared_write", "shared_read", "shared_append", "lib",
    "create_incompatible", "lib_missing", "lib_noiface", "plain_schema", "call_deep",
];
pub fn opcode(n: &str) -> i64 {
    OPS.iter().position(|x| *x == n).unwrap_or(4) as i64
}
impl Workload {
    pub fn to_json(&self) -> Value {
        json!(self
            .threads
            .iter()
            .map(|t| t.iter().map(|o| json!([OPS[(o[0] as usize) % OPS.len()], o[1], o[2]])).collect::<Vec<_>>())
            .collect::<Vec<_>>())
    }
    pub fn from_json(v: &Value) -> Workload {
        let threads = v
            .as_array()
            .map(|ts| {
                ts.iter()
                    .map(|t| {
                        t.as_array()
                            .map(|ops| {
                                ops.iter()
                                    .filter_map(|o| {
                                        let a = o.as_array()?;
                                        Some(vec![opcode(a.first()?.as_str()?), a.get(1).and_then(|x| x.as_i64()).unwrap_or(0), a.get(2).and_then(|x| x.as_i64()).unwrap_or(0)])
                                    })
                                    .collect()
                            })
                            .unwrap_or_default()
                    })
                    .collect()
            })
            .unwrap_or_default();
        Workload { threads }
    }
    pub fn hash(&self) -> u64 {
        let mut h = simcore::Fnv::new();
        h.str(&self.to_json().to_string());
        h.0
    }
    pub fn uses_lib(&self) -> bool {
        self.threads.iter().flatten().any(|o| ["lib", "lib_noiface"].contains(&OPS[(o[0] as usize) % OPS.len()]))
    }
}
pub fn gen_workload(seed: u64, allow_lib: bool) -> Workload {
    let mut rng = Rng::new(seed);
    let nthreads = rng.range(2, 4) as usize;
    // swarm: each workload enables its own families
    let fam_skew = rng.chance(1, 2);
    let fam_shared = rng.chance(2, 3);
    let fam_nested = rng.chance(2, 3);
    let fam_lib = allow_lib && rng.chance(1, 3);
    let mut pool: Vec<&str> = vec!["create_a_same", "create_a_same", "create_b", "call", "call"];
    if fam_skew {
        pool.extend(["create_a_old_caller", "create_a_new_caller"]);
    }
    if fam_shared {
        pool.extend(["shared_inc", "shared_write", "shared_read", "shared_append"]);
    }
    if fam_nested {
        pool.extend(["call_cb", "call_mk", "call_take"]);
        if rng.chance(1, 3) {
            pool.extend(["call_deep", "call_deep"]);
        }
    }
    if rng.chance(1, 4) {
        pool.extend(["plain_schema"]);
    }
    if fam_lib {
        pool.extend(["lib", "lib"]);
        if rng.chance(1, 2) {
            // a probe for an interface the plugin does not export (must fail, and must leave the plugin usable)
            pool.extend(["lib_noiface"]);
        }
    }
    // error paths: a negotiation that must fail, a library that does not exist
    if rng.chance(1, 3) {
        pool.extend(["create_incompatible", "create_incompatible"]);
    }
    if rng.chance(1, 4) {
        pool.extend(["lib_missing", "lib_missing"]);
    }
    let mut threads = Vec::new();
    for _t in 0..nthreads {
        let n = rng.range(2, 5);
        let mut ops = Vec::new();
        for _ in 0..n {
            let name = *rng.pick(&pool);
            ops.push(vec![opcode(name), rng.below(4) as i64, rng.below(1000) as i64]);
        }
        threads.push(ops);
    }
    Workload { threads }
}

// ---------------------------------------------------------------------------------------------
// sequential specification of the shared object
// ---------------------------------------------------------------------------------------------
#[derive(Clone, Debug, Default, PartialEq, Eq, Hash)]
pub struct Model {
    counter: u64,
    reg: u64,
    log_len: u64,
}
#[derive(Clone, Debug, PartialEq, Eq, Hash)]
pub enum SOp {
    Inc,
    Write(u64),
    Read,
    Append,
}
impl SequentialSpec for Model {
    type Op = SOp;
    type Ret = u64;
    fn invoke(&mut self, op: &SOp) -> u64 {
        match op {
            SOp::Inc => {
                self.counter += 1;
                self.counter
            }
            SOp::Write(v) => {
                let o = self.reg;
                self.reg = *v;
                o
            }
            SOp::Read => self.reg,
            SOp::Append => {
                self.log_len += 1;
                self.log_len
            }
        }
    }
}

// ---------------------------------------------------------------------------------------------
// the scenario (runs inside a shuttle execution)
// ---------------------------------------------------------------------------------------------
pub enum Conn {
    A0(AbiConnection<dyn a_v0::IfA>),
    A1(AbiConnection<dyn a_v1::IfA>),
    B(AbiConnection<dyn IfB>),
}
#[cfg(not(simconc_std))]
struct Cb(Arc<AtomicU64>);
#[cfg(not(simconc_std))]
impl AdderCallback for Cb {
    fn set(&self, value: u32) {
        self.0.store(value as u64, Ordering::SeqCst);
    }
    fn get(&self) -> u32 {
        self.0.load(Ordering::SeqCst) as u32
    }
}
pub static LIB_PATH: std::sync::OnceLock<String> = std::sync::OnceLock::new();
/// counters that survive the execution (plain std atomics: not scheduling points)
pub static REACH_TEMPLATE_CONTENDED: AtomicU64 = AtomicU64::new(0);
pub static EXECUTIONS: AtomicU64 = AtomicU64::new(0);

pub fn run_thread(tid: usize, ops: &[Vec<i64>], shared: &Option<Arc<AbiConnection<dyn Shared>>>, tester: &Arc<std::sync::Mutex<LinearizabilityTester<usize, Model>>>) -> Vec<String> {
    let mut out = Vec::new();
    let mut conns: Vec<Conn> = Vec::new();
    for (i, op) in ops.iter().enumerate() {
        let name = OPS[(op[0] as usize) % OPS.len()];
        let (a, b) = (op[1], op[2]);
        match name {
            "create_a_same" => {
                let c = AbiConnection::<dyn a_v0::IfA>::from_boxed_trait(Box::new(ImplA0)).expect("create A same");
                conns.push(Conn::A0(c));
                out.push("created A".into());
            }
            "create_a_old_caller" => {
                // caller built against revision 0, implementation against revision 1
                let c = unsafe { AbiConnection::<dyn a_v0::IfA>::from_boxed_trait_for_test(<dyn a_v1::IfA as AbiExportable>::ABI_ENTRY, Box::new(ImplA1) as Box<dyn a_v1::IfA>) }.expect("create A old caller");
                conns.push(Conn::A0(c));
                out.push("created A(old caller, newer impl)".into());
            }
            "create_a_new_caller" => {
                let c = unsafe { AbiConnection::<dyn a_v1::IfA>::from_boxed_trait_for_test(<dyn a_v0::IfA as AbiExportable>::ABI_ENTRY, Box::new(ImplA0) as Box<dyn a_v0::IfA>) }.expect("create A new caller");
                conns.push(Conn::A1(c));
                out.push("created A(newer caller, old impl)".into());
            }
            "create_incompatible" => {
                // caller and implementation disagree about the argument type of `f`: every attempt must fail with an
                // error (and must not disturb anybody else)
                if a % 3 == 2 {
                    // the implementation requires a Send + Sync closure, the caller does not promise one
                    let r = unsafe { AbiConnection::<dyn c_caller::IfC>::from_boxed_trait_for_test(<dyn c_callee::IfC as AbiExportable>::ABI_ENTRY, Box::new(ImplC) as Box<dyn c_callee::IfC>) };
                    match r {
                        Ok(_) => panic!("MUST-FAIL-ACCEPTED: a connection between a caller passing Box<dyn Fn> and an implementation requiring Box<dyn Fn + Send + Sync> was created"),
                        Err(e) => out.push(format!("incompatible closure bounds: error {}", format!("{:?}", e).chars().take(40).collect::<String>())),
                    }
                    continue;
                }
                // (the implementation object's Drop uses the library itself)
                let r = if a % 3 == 1 {
                    unsafe { AbiConnection::<dyn a_bad::IfA>::from_boxed_trait_for_test(<dyn a_v0::IfA as AbiExportable>::ABI_ENTRY, Box::new(ImplDropper) as Box<dyn a_v0::IfA>) }
                } else {
                    unsafe { AbiConnection::<dyn a_bad::IfA>::from_boxed_trait_for_test(<dyn a_v0::IfA as AbiExportable>::ABI_ENTRY, Box::new(ImplA0) as Box<dyn a_v0::IfA>) }
                };
                if r.is_ok() {
                    panic!("MUST-FAIL-ACCEPTED: a connection between incompatible definitions of IfA was created");
                }
                out.push(match r {
                    Ok(_) => "incompatible: CONNECTED".to_string(),
                    Err(e) => format!("incompatible: error {}", format!("{:?}", e).chars().take(40).collect::<String>()),
                });
            }
            #[cfg(not(simconc_std))]
            "lib_missing" => {
                let r = AbiConnection::<dyn AdderInterface>::load_shared_library(&format!("/nonexistent/libmissing{}.so", a % 2));
                out.push(match r {
                    Ok(_) => "missing lib: LOADED".to_string(),
                    Err(e) => format!("missing lib: error {}", format!("{:?}", e).chars().take(24).collect::<String>()),
                });
            }
            "plain_schema" => {
                // ordinary savefile use next to the ABI: saving a value with its schema touches the same process-wide,
                // lazily initialised state (type layout probes) that a first negotiation reads
                let v = (format!("s{}", b), vec![b as u32, 7], a as u8);
                let bytes = savefile::save_to_mem(0, &v).expect("save_to_mem");
                let back: (String, Vec<u32>, u8) = savefile::load_from_mem(&bytes, 0).expect("load_from_mem");
                out.push(format!("plain {} {}", bytes.len(), back == v));
            }
            "create_b" => {
                let c = AbiConnection::<dyn IfB>::from_boxed_trait(Box::new(ImplB)).expect("create B");
                conns.push(Conn::B(c));
                out.push("created B".into());
            }
            "call_deep" => {
                // callbacks nested DEEP_LEVELS deep: the callback handed to `cb` calls `cb` again. With a few threads doing
                // this at once there are many dozens of ABI calls in flight in the process, none of them deeper than
                // DEEP_LEVELS in its own thread
                const DEEP_LEVELS: u32 = 14;
                const MARK: u32 = 4_000_000;
                fn deep(c: &AbiConnection<dyn a_v0::IfA>, level: u32) -> u32 {
                    use a_v0::IfA;
                    if level == 0 {
                        return 1;
                    }
                    // `cb` calls its closure twice: f(x), then f(result); only the marked first call goes deeper
                    c.cb(&|v| if v == MARK + level { deep(c, level - 1).wrapping_add(level) } else { v.wrapping_add(1) }, MARK + level)
                }
                let idx = if conns.is_empty() { 0 } else { (a as usize) % conns.len() };
                match conns.get(idx) {
                    Some(Conn::A0(c)) => out.push(format!("deep {}", deep(c, DEEP_LEVELS))),
                    _ => out.push("noop".into()),
                }
            }
            "call" | "call_cb" | "call_mk" | "call_take" => {
                if conns.is_empty() {
                    out.push("noop".into());
                    continue;
                }
                let idx = (a as usize) % conns.len();
                let x = b as u32;
                let r = match (&conns[idx], name) {
                    (Conn::A0(c), "call") => {
                        use a_v0::IfA;
                        format!("{} {}", c.f(x), c.g(a_v0::Arg { a: x }))
                    }
                    (Conn::A1(c), "call") => {
                        use a_v1::IfA;
                        format!("{} {}", c.f(x), c.g(a_v1::Arg { a: x, b: 9 }))
                    }
                    (Conn::A0(c), "call_cb") => {
                        use a_v0::IfA;
                        format!("{}", c.cb(&|v| v.wrapping_add(3), x))
                    }
                    (Conn::A1(c), "call_cb") => {
                        use a_v1::IfA;
                        format!("{}", c.cb(&|v| v.wrapping_add(3), x))
                    }
                    (Conn::A0(c), "call_mk") => {
                        use a_v0::IfA;
                        let l = c.mk(x);
                        format!("{}", l.ping(2))
                    }
                    (Conn::A1(c), "call_mk") => {
                        use a_v1::IfA;
                        let l = c.mk(x);
                        format!("{}", l.ping(2))
                    }
                    (Conn::A0(c), _) => {
                        use a_v0::IfA;
                        format!("{}", c.take(Box::new(LeafImpl(x)), 5))
                    }
                    (Conn::A1(c), _) => {
                        use a_v1::IfA;
                        format!("{}", c.take(Box::new(LeafImpl(x)), 5))
                    }
                    (Conn::B(c), _) => {
                        let v: Vec<u32> = (0..(x % 40)).collect();
                        format!("{} {}", c.h("s".repeat((x % 90) as usize)), c.k(&v))
                    }
                };
                out.push(r);
            }
            "shared_inc" | "shared_write" | "shared_read" | "shared_append" => {
                let Some(shared) = shared.as_ref() else {
                    out.push("noop".into());
                    continue;
                };
                let (sop, uniq) = match name {
                    "shared_inc" => (SOp::Inc, 0),
                    "shared_write" => {
                        let v = (tid as u64 + 1) * 10_000 + i as u64;
                        (SOp::Write(v), v)
                    }
                    "shared_read" => (SOp::Read, 0),
                    _ => (SOp::Append, (tid as u64 + 1) * 10_000 + i as u64),
                };
                tester.lock().unwrap().on_invoke(tid, sop.clone()).ok();
                let r = match sop {
                    SOp::Inc => shared.inc(),
                    SOp::Write(v) => shared.write(v),
                    SOp::Read => shared.read(),
                    SOp::Append => shared.append(uniq, "p".repeat((b % 120) as usize)),
                };
                tester.lock().unwrap().on_return(tid, r).ok();
                out.push("shared".into()); // the value is judged by the linearizability tester, not by equality
            }
            #[cfg(not(simconc_std))]
            "lib_noiface" => match LIB_PATH.get() {
                Some(p0) => {
                    let p = &if a % 2 == 1 { format!("{}.copy.so", p0) } else { p0.clone() };
                    let r = AbiConnection::<dyn IfB>::load_shared_library(p);
                    out.push(match r {
                        Ok(_) => "no such interface: LOADED".to_string(),
                        Err(e) => format!("no such interface: error {}", format!("{:?}", e).chars().take(16).collect::<String>()),
                    });
                }
                None => out.push("noop".into()),
            },
            #[cfg(not(simconc_std))]
            "lib" => match LIB_PATH.get() {
                Some(p0) => {
                    // two byte-identical copies of the plugin under different paths: each is a library of its own
                    let p = &if a % 2 == 1 { format!("{}.copy.so", p0) } else { p0.clone() };
                    let c = AbiConnection::<dyn AdderInterface>::load_shared_library(p).expect("load_shared_library");
                    let cell = Arc::new(AtomicU64::new(0));
                    let r1 = c.add_simple(b as u32, 2);
                    let r2 = c.sub(b as u32 + 10, 3, Box::new(Cb(cell.clone())));
                    out.push(format!("lib {} {} cb={}", r1, r2, cell.load(Ordering::SeqCst)));
                }
                None => out.push("noop".into()),
            },
            _ => out.push("noop".into()),
        }
    }
    out
}

/// what the post phase reports on this platform when every negotiation happened one after another (checked by the
/// shuttle engine against its own sequential reference run on every job; used as the yardstick by the Miri engine, whose
/// sequential run shares the process - and therefore the caches - with the concurrent one)
pub fn expected_post() -> Vec<String> {
    vec![
        "A.same g#0 by_ref=true take#0 by_ref=true".to_string(),
        "A.old-caller g#0 by_ref=false g(7)=26".to_string(),
        "B k#0 by_ref=true h#0 by_ref=true h=6".to_string(),
    ]
}
pub struct Outcome {
    pub per_thread: Vec<Vec<String>>,
    pub post: Vec<String>,
    pub linearizable: bool,
    pub history_len: usize,
}
pub fn scenario(w: &Workload, sequential: bool) -> Outcome {
    #[cfg(not(simconc_std))]
    savefile_abi::__verif_reset_caches();
    EXECUTIONS.fetch_add(1, Ordering::Relaxed);
    // the shared connection exists before the threads start - but only if some thread uses it: a workload without
    // shared operations leaves EVERY first use (of the caches, of lazily probed type layouts) to the threads themselves
    let uses_shared = w.threads.iter().flatten().any(|o| OPS[(o[0] as usize) % OPS.len()].starts_with("shared"));
    let shared: Option<Arc<AbiConnection<dyn Shared>>> = if uses_shared {
        Some(Arc::new(AbiConnection::<dyn Shared>::from_boxed_trait(Box::new(SharedImpl { st: SMutex::new(SharedState::default()) })).expect("shared")))
    } else {
        None
    };
    let tester = Arc::new(std::sync::Mutex::new(LinearizabilityTester::new(Model::default())));
    let mut per_thread = Vec::new();
    if sequential {
        for (tid, ops) in w.threads.iter().enumerate() {
            per_thread.push(run_thread(tid, ops, &shared, &tester));
        }
    } else {
        let mut hs = Vec::new();
        for (tid, ops) in w.threads.iter().enumerate() {
            let ops = ops.clone();
            let shared = shared.clone();
            let tester = tester.clone();
            #[cfg(not(simconc_std))]
            hs.push(shuttle::thread::spawn(move || run_thread(tid, &ops, &shared, &tester)));
            #[cfg(simconc_std)]
            hs.push(std::thread::spawn(move || run_thread(tid, &ops, &shared, &tester)));
        }
        for h in hs {
            per_thread.push(h.join().expect("thread panicked"));
        }
    }
    // post phase: what ended up in the template cache must be what a sequential negotiation produces
    let mut post = Vec::new();
    {
        let c = AbiConnection::<dyn a_v0::IfA>::from_boxed_trait(Box::new(ImplA0)).expect("post A");
        post.push(format!("A.same g#0 by_ref={} take#0 by_ref={}", c.get_arg_passable_by_ref("g", 0), c.get_arg_passable_by_ref("take", 1)));
        let c = unsafe { AbiConnection::<dyn a_v0::IfA>::from_boxed_trait_for_test(<dyn a_v1::IfA as AbiExportable>::ABI_ENTRY, Box::new(ImplA1) as Box<dyn a_v1::IfA>) }.expect("post A skew");
        {
            use a_v0::IfA;
            post.push(format!("A.old-caller g#0 by_ref={} g(7)={}", c.get_arg_passable_by_ref("g", 0), c.g(a_v0::Arg { a: 7 })));
        }
        let c = AbiConnection::<dyn IfB>::from_boxed_trait(Box::new(ImplB)).expect("post B");
        post.push(format!("B k#0 by_ref={} h#0 by_ref={} h={}", c.get_arg_passable_by_ref("k", 0), c.get_arg_passable_by_ref("h", 0), c.h("abc".into())));
    }
    let t = tester.lock().unwrap();
    Outcome { per_thread, post, linearizable: t.is_consistent(), history_len: t.len() }
}

