//! simconc: shuttle-scheduled scenarios for C16 (concurrent creation and use of ABI connections).
//! The three process-wide caches of savefile-abi are locked with shuttle mutexes (hook H3, shadow build), so the
//! scheduler owns every interleaving of negotiation / instance creation / dlopen against calls.
//!   simconc run --prop C16 --seed S --from A --to B [--stride N] [--journal F] [--out F] [--trace] [--tier T]
//!   simconc replay FILE
mod ifaces;
mod scen;
use scen::*;
use serde_json::{json, Value};
use shuttle::scheduler::{DfsScheduler, PctScheduler, RandomScheduler};
use shuttle::{Config, FailurePersistence, MaxSteps, Runner};
use simcore::{arg, flag, mix, Journal, Rng, Stats};
use std::sync::atomic::{AtomicU64, Ordering};
use std::sync::Arc;

// ---------------------------------------------------------------------------------------------
// exploring one workload
// ---------------------------------------------------------------------------------------------
#[derive(Default)]
struct Explored {
    executions: u64,
    failure: Option<(String, String, String)>, // (oracle, detail, schedule)
    sched_kind: String,
    history_ops: u64,
}
fn sched_dir() -> std::path::PathBuf {
    let d = std::env::var("SIM_TMP").unwrap_or_else(|_| "/verif/.work/tmp".to_string());
    let p = std::path::PathBuf::from(d).join(format!("sched_{}", std::process::id()));
    let _ = std::fs::remove_dir_all(&p);
    let _ = std::fs::create_dir_all(&p);
    p
}
fn config(w: &Workload, dir: &std::path::Path) -> Config {
    let mut c = Config::new();
    c.stack_size = if w.uses_lib() { 4 << 20 } else { 2 << 20 };
    c.max_steps = MaxSteps::FailAfter(20_000);
    c.failure_persistence = FailurePersistence::File(Some(dir.to_path_buf()));
    c.silence_warnings = true;
    c
}
fn classify(msg: &str) -> &'static str {
    if msg.contains("deadlock") {
        "C16.deadlock"
    } else if msg.contains("exceeded max_steps") || msg.contains("max_steps") {
        "C16.step-budget"
    } else if msg.contains("RESULT-MISMATCH") {
        "C16.results-differ-from-sequential"
    } else if msg.contains("NOT-LINEARIZABLE") {
        "C16.shared-not-linearizable"
    } else if msg.contains("MUST-FAIL-ACCEPTED") {
        "C16.incompatible-connection-accepted"
    } else if msg.contains("TEMPLATE-MISMATCH") {
        "C16.cached-template-differs"
    } else {
        "C16.panic"
    }
}
fn body(w: &Workload, reference: &Outcome) {
    let o = scenario(w, false);
    for (t, (got, want)) in o.per_thread.iter().zip(reference.per_thread.iter()).enumerate() {
        if got != want {
            panic!("RESULT-MISMATCH thread {}: concurrent {:?} vs one-after-another {:?}", t, got, want);
        }
    }
    if o.post != reference.post {
        panic!("TEMPLATE-MISMATCH after concurrent negotiation {:?} vs sequential {:?}", o.post, reference.post);
    }
    if !o.linearizable {
        panic!("NOT-LINEARIZABLE history of {} operations on the shared connection", o.history_len);
    }
}
fn reference_of(w: &Workload) -> Result<Outcome, String> {
    let slot: Arc<std::sync::Mutex<Option<Outcome>>> = Arc::new(std::sync::Mutex::new(None));
    let s2 = slot.clone();
    let w2 = w.clone();
    let dir = sched_dir();
    let cfg = config(w, &dir);
    let r = simcore::guarded(move || {
        Runner::new(RandomScheduler::new_from_seed(1, 1), cfg).run(move || {
            let o = scenario(&w2, true);
            *s2.lock().unwrap() = Some(o);
        });
    });
    match r {
        Ok(()) => {
            let o = slot.lock().unwrap().take().ok_or_else(|| "no reference outcome".to_string())?;
            if o.post != expected_post() {
                return Err(format!("harness: expected_post() does not describe this build: sequential post phase gave {:?}", o.post));
            }
            Ok(o)
        }
        Err(p) => Err(format!("{} at {}", p.msg, p.site())),
    }
}
fn run_with<S: shuttle::scheduler::Scheduler + 'static>(w: &Workload, reference: Arc<Outcome>, sched: S, kind: &str, ex: &mut Explored) {
    if ex.failure.is_some() {
        return;
    }
    let dir = sched_dir();
    let cfg = config(w, &dir);
    let w2 = w.clone();
    let before = EXECUTIONS.load(Ordering::Relaxed);
    let r = simcore::guarded(move || {
        Runner::new(sched, cfg).run(move || body(&w2, &reference));
    });
    ex.executions += EXECUTIONS.load(Ordering::Relaxed) - before;
    if let Err(p) = r {
        // shuttle persisted the failing schedule
        let mut schedule = String::new();
        if let Ok(rd) = std::fs::read_dir(&dir) {
            for e in rd.flatten() {
                if let Ok(s) = std::fs::read_to_string(e.path()) {
                    schedule = s.trim().to_string();
                }
            }
        }
        ex.failure = Some((classify(&p.msg).to_string(), p.msg.chars().take(400).collect(), schedule));
        ex.sched_kind = kind.to_string();
    }
    let _ = std::fs::remove_dir_all(&dir);
}
fn explore(w: &Workload, seed: u64, iters: usize) -> Result<Explored, String> {
    let reference = match reference_of(w) {
        Ok(r) => Arc::new(r),
        Err(e) if e.contains("MUST-FAIL-ACCEPTED") => {
            // an absolute oracle fired already in the one-after-another execution: that is a verdict, not a failed reference
            let mut ex = Explored::default();
            ex.executions = 1;
            ex.failure = Some((classify(&e).to_string(), e.chars().take(400).collect(), String::new()));
            ex.sched_kind = "sequential".to_string();
            return Ok(ex);
        }
        Err(e) => return Err(e),
    };
    let mut ex = Explored::default();
    ex.history_ops = w.threads.iter().flatten().filter(|o| OPS[(o[0] as usize) % OPS.len()].starts_with("shared")).count() as u64;
    run_with(w, reference.clone(), RandomScheduler::new_from_seed(seed, iters), "random", &mut ex);
    run_with(w, reference.clone(), PctScheduler::new_from_seed(seed ^ 0x55, 2, iters / 2), "pct2", &mut ex);
    run_with(w, reference.clone(), PctScheduler::new_from_seed(seed ^ 0xaa, 3, iters / 2), "pct3", &mut ex);
    if w.threads.len() == 2 && w.threads.iter().map(|t| t.len()).sum::<usize>() <= 5 {
        run_with(w, reference.clone(), DfsScheduler::new(Some(iters), false), "dfs", &mut ex);
    }
    Ok(ex)
}

fn case_json(w: &Workload, seed: u64, kind: &str, schedule: &str) -> Value {
    json!({"prop": "C16", "plan": {"threads": w.to_json(), "scheduler": kind, "schedule": schedule, "workload_hash": format!("{:016x}", w.hash())}, "seed": seed})
}

fn main() {
    let args: Vec<String> = std::env::args().collect();
    if std::env::var("SIM_LOUD").is_err() {
        simcore::install_silent_panic_hook();
    }
    if let Ok(p) = std::env::var("SIMCONC_CDYLIB") {
        if std::path::Path::new(&p).exists() {
            let _ = LIB_PATH.set(p);
        }
    }
    match args.get(1).map(|s| s.as_str()).unwrap_or("") {
        "run" => {
            let seed: u64 = arg(&args, "--seed").and_then(|s| s.parse().ok()).unwrap_or(simcore::DEFAULT_SEED);
            let from: u64 = arg(&args, "--from").and_then(|s| s.parse().ok()).unwrap_or(0);
            let to: u64 = arg(&args, "--to").and_then(|s| s.parse().ok()).unwrap_or(1);
            let stride: u64 = arg(&args, "--stride").and_then(|s| s.parse().ok()).unwrap_or(1);
            let thorough = arg(&args, "--tier").as_deref() == Some("thorough");
            let deadline = arg(&args, "--max-seconds").and_then(|s| s.parse::<u64>().ok()).map(|s| std::time::Instant::now() + std::time::Duration::from_secs(s));
            let mut journal = Journal::open(arg(&args, "--journal").as_deref());
            let trace = flag(&args, "--trace");
            let mut stats = Stats::new();
            let iters = if thorough { 1500 } else { 300 };
            let mut i = from;
            while i < to {
                journal.line(&format!("BEGIN {}", i));
                let wseed = mix(seed, "simconc-C16", i);
                let w = gen_workload(wseed, LIB_PATH.get().is_some());
                if trace {
                    journal.line(&format!("EVAL {}", case_json(&w, wseed, "search", "")));
                }
                stats.inc("jobs");
                let mut job_hash = simcore::Fnv::new();
                match explore(&w, wseed, iters) {
                    Ok(ex) => {
                        job_hash.u64(ex.executions);
                        job_hash.str(ex.failure.as_ref().map(|f| f.0.as_str()).unwrap_or("ok"));
                        stats.add("evals", ex.executions);
                        stats.add("logical_steps", ex.executions);
                        stats.add("evals_with_fault_fired", ex.executions); // every execution is a different interleaving
                        stats.add("shared_history_ops", ex.history_ops);
                        if w.uses_lib() {
                            stats.inc("probe.workload_with_dlopen_plugin");
                        }
                        let names: Vec<&str> = w.threads.iter().flatten().map(|o| OPS[(o[0] as usize) % OPS.len()]).collect();
                        if names.iter().filter(|n| n.starts_with("create_a")).count() >= 2 {
                            stats.inc("probe.same_interface_created_by_several_threads");
                        }
                        if names.iter().any(|n| n.contains("old_caller") || n.contains("new_caller")) {
                            stats.inc("probe.version_skewed_peer");
                        }
                        if names.iter().any(|n| *n == "call_cb" || *n == "call_take") {
                            stats.inc("probe.implementation_side_creates_connection");
                        }
                        if names.iter().any(|n| *n == "call_mk") {
                            stats.inc("probe.caller_side_creates_connection_for_returned_object");
                        }
                        let mut fam: Vec<&str> = names.clone();
                        fam.sort();
                        fam.dedup();
                        let outcome = if ex.failure.is_some() { "violation" } else { "ok" };
                        stats.inc(&format!("outcome.{}", outcome));
                        stats.sig(format!("{}t|{}|{}", w.threads.len(), fam.join(","), outcome));
                        match ex.failure {
                            Some((oracle, detail, schedule)) => {
                                stats.inc("violations_raw");
                                if stats.violations.len() < 20 && !stats.violations.iter().any(|x| x["oracle"] == json!(oracle)) {
                                    stats.violations.push(json!({
                                        "job": i, "oracle": oracle, "detail": detail,
                                        "signature": {"oracle": oracle, "engine": "simconc", "container": "-", "fault_kind": format!("schedule({})", ex.sched_kind), "site": detail.split(' ').take(6).collect::<Vec<_>>().join(" ").chars().filter(|c| !c.is_ascii_digit()).collect::<String>(), "region": "-"},
                                        "case": case_json(&w, wseed, &ex.sched_kind, &schedule), "log_hash": "-",
                                    }));
                                }
                            }
                            None => stats.sample(&format!("threads{}", w.threads.len()), || json!({"workload": w.to_json(), "executions": ex.executions})),
                        }
                    }
                    Err(e) => {
                        stats.inc("reference_failed");
                        stats.sample("reference_failed", || json!({"workload": w.to_json(), "error": e}));
                    }
                }
                journal.line(&format!("END {} 0 {:016x}", i, job_hash.0));
                i += stride;
                if let Some(d) = deadline {
                    if std::time::Instant::now() > d {
                        break;
                    }
                }
            }
            stats.add("probe.template_lock_contended", REACH_TEMPLATE_CONTENDED.load(Ordering::Relaxed));
            let mut out = stats.to_json();
            out["completed_to"] = json!(i);
            let s = serde_json::to_string(&out).unwrap();
            match arg(&args, "--out") {
                Some(p) => std::fs::write(p, s).expect("write out"),
                None => println!("{}", s),
            }
        }
        "replay" => {
            let v: Value = serde_json::from_str(&std::fs::read_to_string(args.get(2).expect("file")).expect("read")).expect("json");
            let cv = if v.get("case").is_some() { v["case"].clone() } else { v.clone() };
            let w = Workload::from_json(&cv["plan"]["threads"]);
            let seed = simcore::ju(&cv, "seed");
            let schedule = simcore::js(&cv["plan"], "schedule").to_string();
            let same_workload = simcore::js(&cv["plan"], "workload_hash") == format!("{:016x}", w.hash());
            if w.threads.is_empty() {
                println!("{}", json!({"verdict": "ok", "note": "empty workload"}));
                std::process::exit(0);
            }
            let reference = match reference_of(&w) {
                Ok(r) => Arc::new(r),
                Err(e) if e.contains("MUST-FAIL-ACCEPTED") => {
                    println!("{}", json!({"verdict": "violation", "oracle": classify(&e), "detail": e, "log_hash": "-"}));
                    std::process::exit(1);
                }
                Err(e) => {
                    println!("{}", json!({"verdict": "reference-failed", "error": e}));
                    std::process::exit(3);
                }
            };
            if !schedule.is_empty() && same_workload {
                // exact replay of the recorded schedule
                let w2 = w.clone();
                let r2 = reference.clone();
                let sch = schedule.clone();
                let r = simcore::guarded(move || shuttle::replay(move || body(&w2, &r2), &sch));
                match r {
                    Err(p) => {
                        println!("{}", json!({"verdict": "violation", "oracle": classify(&p.msg), "detail": p.msg.chars().take(400).collect::<String>(), "schedule": schedule, "log_hash": format!("{:016x}", simcore::fnv_bytes(schedule.as_bytes()))}));
                        std::process::exit(1);
                    }
                    Ok(()) => {
                        println!("{}", json!({"verdict": "ok", "note": "recorded schedule replayed without failure"}));
                        std::process::exit(0);
                    }
                }
            }
            // the workload was edited (minimisation): re-search a fixed budget of schedules
            match explore(&w, seed ^ 0x1234, 600) {
                Ok(ex) => match ex.failure {
                    Some((oracle, detail, sched)) => {
                        println!("{}", json!({"verdict": "violation", "oracle": oracle, "detail": detail, "schedule": sched, "scheduler": ex.sched_kind, "workload_hash": format!("{:016x}", w.hash()), "log_hash": format!("{:016x}", simcore::fnv_bytes(sched.as_bytes()))}));
                        std::process::exit(1);
                    }
                    None => {
                        println!("{}", json!({"verdict": "ok", "executions": ex.executions}));
                        std::process::exit(0);
                    }
                },
                Err(e) => {
                    println!("{}", json!({"verdict": "reference-failed", "error": e}));
                    std::process::exit(3);
                }
            }
        }
        "gen-workloads" => {
            // workloads for the std-thread / Miri engine: no dlopen (Miri cannot), biased towards the shared connection
            let seed: u64 = arg(&args, "--seed").and_then(|s| s.parse().ok()).unwrap_or(simcore::DEFAULT_SEED);
            let n: u64 = arg(&args, "--n").and_then(|s| s.parse().ok()).unwrap_or(4);
            // one fixed workload that hammers the shared connection with arguments that spill out of the inline buffer
            println!("{}", json!([[["shared_append", 0, 100], ["shared_append", 0, 110], ["shared_inc", 0, 0], ["shared_append", 0, 90]], [["shared_append", 0, 95], ["shared_write", 0, 1], ["shared_append", 0, 99]], [["shared_read", 0, 0], ["shared_append", 0, 80], ["shared_append", 0, 100]]]));
            // a second fixed one: every thread starts with the first negotiation of an interface (first use of every
            // process-wide lazily initialised piece of state at the same time)
            if n >= 2 {
                println!("{}", json!([[["plain_schema", 0, 1], ["create_a_same", 0, 3], ["call", 0, 7]], [["create_b", 0, 2], ["call", 0, 6]], [["plain_schema", 1, 4], ["create_b", 0, 1], ["call", 0, 5]]]));
            }
            let mut i = 0u64;
            let mut printed = if n >= 2 { 2 } else { 1 };
            while printed < n {
                let w = gen_workload(mix(seed, "simconc-miri", i), false);
                i += 1;
                let names: Vec<&str> = w.threads.iter().flatten().map(|o| OPS[(o[0] as usize) % OPS.len()]).collect();
                if names.iter().any(|x| *x == "lib_missing") {
                    continue;
                }
                println!("{}", w.to_json());
                printed += 1;
            }
        }
        "facts" => println!("{}", json!({"ops": OPS, "cdylib": LIB_PATH.get()})),
        _ => {
            eprintln!("usage: simconc run|replay|facts");
            std::process::exit(2);
        }
    }
}
