//! simconc: shuttle-scheduled scenarios for C16 (concurrent creation and use of ABI connections).
//! The three process-wide caches of savefile-abi are locked with shuttle mutexes (hook H3, shadow build), so the
//! scheduler owns every interleaving of negotiation / instance creation / dlopen against calls.
//!   simconc run --prop C16 --seed S --from A --to B [--stride N] [--journal F] [--out F] [--trace] [--tier T]
//!   simconc replay FILE
mod ifaces;
use ifaces::*;
use savefile_abi::{AbiConnection, AbiExportable};
use savefile_abi_min_lib::{AdderCallback, AdderInterface};
use serde_json::{json, Value};
use shuttle::scheduler::{DfsScheduler, PctScheduler, RandomScheduler};
use shuttle::sync::Mutex as SMutex;
use shuttle::{Config, FailurePersistence, MaxSteps, Runner};
use simcore::{arg, flag, mix, Journal, Rng, Stats};
use stateright::semantics::{ConsistencyTester, LinearizabilityTester, SequentialSpec};
use std::sync::atomic::{AtomicU64, Ordering};
use std::sync::Arc;

// ---------------------------------------------------------------------------------------------
// workload (generated outside shuttle, explicit data)
// ---------------------------------------------------------------------------------------------
#[derive(Clone, Debug, PartialEq)]
pub struct Workload {
    pub threads: Vec<Vec<Vec<i64>>>, // thread -> ops -> [code, a, b]
}
pub const OPS: [&str; 15] = [
    "create_a_same", "create_a_old_caller", "create_a_new_caller", "create_b", "call", "call_cb", "call_mk", "call_take", "shared_inc", "shared_write", "shared_read", "shared_append", "lib",
    "create_incompatible", "lib_missing",
];
fn opcode(n: &str) -> i64 {
    OPS.iter().position(|x| *x == n).unwrap_or(4) as i64
}
impl Workload {
    fn to_json(&self) -> Value {
        json!(self
            .threads
            .iter()
            .map(|t| t.iter().map(|o| json!([OPS[(o[0] as usize) % OPS.len()], o[1], o[2]])).collect::<Vec<_>>())
            .collect::<Vec<_>>())
    }
    fn from_json(v: &Value) -> Workload {
        let threads = v
            .as_array()
            .map(|ts| {
                ts.iter()
                    .map(|t| {
                        t.as_array()
                            .map(|ops| {
                                ops.iter()
                                    .filter_map(|o| {
                                        let a = o.as_array()?;
                                        Some(vec![opcode(a.first()?.as_str()?), a.get(1).and_then(|x| x.as_i64()).unwrap_or(0), a.get(2).and_then(|x| x.as_i64()).unwrap_or(0)])
                                    })
                                    .collect()
                            })
                            .unwrap_or_default()
                    })
                    .collect()
            })
            .unwrap_or_default();
        Workload { threads }
    }
    fn hash(&self) -> u64 {
        let mut h = simcore::Fnv::new();
        h.str(&self.to_json().to_string());
        h.0
    }
    fn uses_lib(&self) -> bool {
        self.threads.iter().flatten().any(|o| OPS[(o[0] as usize) % OPS.len()] == "lib")
    }
}
fn gen_workload(seed: u64, allow_lib: bool) -> Workload {
    let mut rng = Rng::new(seed);
    let nthreads = rng.range(2, 4) as usize;
    // swarm: each workload enables its own families
    let fam_skew = rng.chance(1, 2);
    let fam_shared = rng.chance(2, 3);
    let fam_nested = rng.chance(2, 3);
    let fam_lib = allow_lib && rng.chance(1, 3);
    let mut pool: Vec<&str> = vec!["create_a_same", "create_a_same", "create_b", "call", "call"];
    if fam_skew {
        pool.extend(["create_a_old_caller", "create_a_new_caller"]);
    }
    if fam_shared {
        pool.extend(["shared_inc", "shared_write", "shared_read", "shared_append"]);
    }
    if fam_nested {
        pool.extend(["call_cb", "call_mk", "call_take"]);
    }
    if fam_lib {
        pool.extend(["lib", "lib"]);
    }
    // error paths: a negotiation that must fail, a library that does not exist
    if rng.chance(1, 3) {
        pool.extend(["create_incompatible", "create_incompatible"]);
    }
    if rng.chance(1, 4) {
        pool.extend(["lib_missing", "lib_missing"]);
    }
    let mut threads = Vec::new();
    for _t in 0..nthreads {
        let n = rng.range(2, 5);
        let mut ops = Vec::new();
        for _ in 0..n {
            let name = *rng.pick(&pool);
            ops.push(vec![opcode(name), rng.below(4) as i64, rng.below(1000) as i64]);
        }
        threads.push(ops);
    }
    Workload { threads }
}

// ---------------------------------------------------------------------------------------------
// sequential specification of the shared object
// ---------------------------------------------------------------------------------------------
#[derive(Clone, Debug, Default, PartialEq, Eq, Hash)]
struct Model {
    counter: u64,
    reg: u64,
    log_len: u64,
}
#[derive(Clone, Debug, PartialEq, Eq, Hash)]
enum SOp {
    Inc,
    Write(u64),
    Read,
    Append,
}
impl SequentialSpec for Model {
    type Op = SOp;
    type Ret = u64;
    fn invoke(&mut self, op: &SOp) -> u64 {
        match op {
            SOp::Inc => {
                self.counter += 1;
                self.counter
            }
            SOp::Write(v) => {
                let o = self.reg;
                self.reg = *v;
                o
            }
            SOp::Read => self.reg,
            SOp::Append => {
                self.log_len += 1;
                self.log_len
            }
        }
    }
}

// ---------------------------------------------------------------------------------------------
// the scenario (runs inside a shuttle execution)
// ---------------------------------------------------------------------------------------------
enum Conn {
    A0(AbiConnection<dyn a_v0::IfA>),
    A1(AbiConnection<dyn a_v1::IfA>),
    B(AbiConnection<dyn IfB>),
}
struct Cb(Arc<AtomicU64>);
impl AdderCallback for Cb {
    fn set(&self, value: u32) {
        self.0.store(value as u64, Ordering::SeqCst);
    }
    fn get(&self) -> u32 {
        self.0.load(Ordering::SeqCst) as u32
    }
}
static LIB_PATH: std::sync::OnceLock<String> = std::sync::OnceLock::new();
/// counters that survive the execution (plain std atomics: not scheduling points)
static REACH_TEMPLATE_CONTENDED: AtomicU64 = AtomicU64::new(0);
static EXECUTIONS: AtomicU64 = AtomicU64::new(0);

fn run_thread(tid: usize, ops: &[Vec<i64>], shared: &Arc<AbiConnection<dyn Shared>>, tester: &Arc<std::sync::Mutex<LinearizabilityTester<usize, Model>>>) -> Vec<String> {
    let mut out = Vec::new();
    let mut conns: Vec<Conn> = Vec::new();
    for (i, op) in ops.iter().enumerate() {
        let name = OPS[(op[0] as usize) % OPS.len()];
        let (a, b) = (op[1], op[2]);
        match name {
            "create_a_same" => {
                let c = AbiConnection::<dyn a_v0::IfA>::from_boxed_trait(Box::new(ImplA0)).expect("create A same");
                conns.push(Conn::A0(c));
                out.push("created A".into());
            }
            "create_a_old_caller" => {
                // caller built against revision 0, implementation against revision 1
                let c = unsafe { AbiConnection::<dyn a_v0::IfA>::from_boxed_trait_for_test(<dyn a_v1::IfA as AbiExportable>::ABI_ENTRY, Box::new(ImplA1) as Box<dyn a_v1::IfA>) }.expect("create A old caller");
                conns.push(Conn::A0(c));
                out.push("created A(old caller, newer impl)".into());
            }
            "create_a_new_caller" => {
                let c = unsafe { AbiConnection::<dyn a_v1::IfA>::from_boxed_trait_for_test(<dyn a_v0::IfA as AbiExportable>::ABI_ENTRY, Box::new(ImplA0) as Box<dyn a_v0::IfA>) }.expect("create A new caller");
                conns.push(Conn::A1(c));
                out.push("created A(newer caller, old impl)".into());
            }
            "create_incompatible" => {
                // caller and implementation disagree about the argument type of `f`: every attempt must fail with an
                // error (and must not disturb anybody else)
                let r = unsafe { AbiConnection::<dyn a_bad::IfA>::from_boxed_trait_for_test(<dyn a_v0::IfA as AbiExportable>::ABI_ENTRY, Box::new(ImplA0) as Box<dyn a_v0::IfA>) };
                out.push(match r {
                    Ok(_) => "incompatible: CONNECTED".to_string(),
                    Err(e) => format!("incompatible: error {}", format!("{:?}", e).chars().take(40).collect::<String>()),
                });
            }
            "lib_missing" => {
                let r = AbiConnection::<dyn AdderInterface>::load_shared_library(&format!("/nonexistent/libmissing{}.so", a % 2));
                out.push(match r {
                    Ok(_) => "missing lib: LOADED".to_string(),
                    Err(e) => format!("missing lib: error {}", format!("{:?}", e).chars().take(24).collect::<String>()),
                });
            }
            "create_b" => {
                let c = AbiConnection::<dyn IfB>::from_boxed_trait(Box::new(ImplB)).expect("create B");
                conns.push(Conn::B(c));
                out.push("created B".into());
            }
            "call" | "call_cb" | "call_mk" | "call_take" => {
                if conns.is_empty() {
                    out.push("noop".into());
                    continue;
                }
                let idx = (a as usize) % conns.len();
                let x = b as u32;
                let r = match (&conns[idx], name) {
                    (Conn::A0(c), "call") => {
                        use a_v0::IfA;
                        format!("{} {}", c.f(x), c.g(a_v0::Arg { a: x }))
                    }
                    (Conn::A1(c), "call") => {
                        use a_v1::IfA;
                        format!("{} {}", c.f(x), c.g(a_v1::Arg { a: x, b: 9 }))
                    }
                    (Conn::A0(c), "call_cb") => {
                        use a_v0::IfA;
                        format!("{}", c.cb(&|v| v.wrapping_add(3), x))
                    }
                    (Conn::A1(c), "call_cb") => {
                        use a_v1::IfA;
                        format!("{}", c.cb(&|v| v.wrapping_add(3), x))
                    }
                    (Conn::A0(c), "call_mk") => {
                        use a_v0::IfA;
                        let l = c.mk(x);
                        format!("{}", l.ping(2))
                    }
                    (Conn::A1(c), "call_mk") => {
                        use a_v1::IfA;
                        let l = c.mk(x);
                        format!("{}", l.ping(2))
                    }
                    (Conn::A0(c), _) => {
                        use a_v0::IfA;
                        format!("{}", c.take(Box::new(LeafImpl(x)), 5))
                    }
                    (Conn::A1(c), _) => {
                        use a_v1::IfA;
                        format!("{}", c.take(Box::new(LeafImpl(x)), 5))
                    }
                    (Conn::B(c), _) => {
                        let v: Vec<u32> = (0..(x % 40)).collect();
                        format!("{} {}", c.h("s".repeat((x % 90) as usize)), c.k(&v))
                    }
                };
                out.push(r);
            }
            "shared_inc" | "shared_write" | "shared_read" | "shared_append" => {
                let (sop, uniq) = match name {
                    "shared_inc" => (SOp::Inc, 0),
                    "shared_write" => {
                        let v = (tid as u64 + 1) * 10_000 + i as u64;
                        (SOp::Write(v), v)
                    }
                    "shared_read" => (SOp::Read, 0),
                    _ => (SOp::Append, (tid as u64 + 1) * 10_000 + i as u64),
                };
                tester.lock().unwrap().on_invoke(tid, sop.clone()).ok();
                let r = match sop {
                    SOp::Inc => shared.inc(),
                    SOp::Write(v) => shared.write(v),
                    SOp::Read => shared.read(),
                    SOp::Append => shared.append(uniq, "p".repeat((b % 120) as usize)),
                };
                tester.lock().unwrap().on_return(tid, r).ok();
                out.push("shared".into()); // the value is judged by the linearizability tester, not by equality
            }
            "lib" => match LIB_PATH.get() {
                Some(p) => {
                    let c = AbiConnection::<dyn AdderInterface>::load_shared_library(p).expect("load_shared_library");
                    let cell = Arc::new(AtomicU64::new(0));
                    let r1 = c.add_simple(b as u32, 2);
                    let r2 = c.sub(b as u32 + 10, 3, Box::new(Cb(cell.clone())));
                    out.push(format!("lib {} {} cb={}", r1, r2, cell.load(Ordering::SeqCst)));
                }
                None => out.push("noop".into()),
            },
            _ => out.push("noop".into()),
        }
    }
    out
}

struct Outcome {
    per_thread: Vec<Vec<String>>,
    post: Vec<String>,
    linearizable: bool,
    history_len: usize,
}
fn scenario(w: &Workload, sequential: bool) -> Outcome {
    savefile_abi::__verif_reset_caches();
    EXECUTIONS.fetch_add(1, Ordering::Relaxed);
    let shared: Arc<AbiConnection<dyn Shared>> = Arc::new(AbiConnection::<dyn Shared>::from_boxed_trait(Box::new(SharedImpl { st: SMutex::new(SharedState::default()) })).expect("shared"));
    let tester = Arc::new(std::sync::Mutex::new(LinearizabilityTester::new(Model::default())));
    let mut per_thread = Vec::new();
    if sequential {
        for (tid, ops) in w.threads.iter().enumerate() {
            per_thread.push(run_thread(tid, ops, &shared, &tester));
        }
    } else {
        let mut hs = Vec::new();
        for (tid, ops) in w.threads.iter().enumerate() {
            let ops = ops.clone();
            let shared = shared.clone();
            let tester = tester.clone();
            hs.push(shuttle::thread::spawn(move || run_thread(tid, &ops, &shared, &tester)));
        }
        for h in hs {
            per_thread.push(h.join().expect("thread panicked"));
        }
    }
    // post phase: what ended up in the template cache must be what a sequential negotiation produces
    let mut post = Vec::new();
    {
        let c = AbiConnection::<dyn a_v0::IfA>::from_boxed_trait(Box::new(ImplA0)).expect("post A");
        post.push(format!("A.same g#0 by_ref={} take#0 by_ref={}", c.get_arg_passable_by_ref("g", 0), c.get_arg_passable_by_ref("take", 1)));
        let c = unsafe { AbiConnection::<dyn a_v0::IfA>::from_boxed_trait_for_test(<dyn a_v1::IfA as AbiExportable>::ABI_ENTRY, Box::new(ImplA1) as Box<dyn a_v1::IfA>) }.expect("post A skew");
        {
            use a_v0::IfA;
            post.push(format!("A.old-caller g#0 by_ref={} g(7)={}", c.get_arg_passable_by_ref("g", 0), c.g(a_v0::Arg { a: 7 })));
        }
        let c = AbiConnection::<dyn IfB>::from_boxed_trait(Box::new(ImplB)).expect("post B");
        post.push(format!("B k#0 by_ref={} h={}", c.get_arg_passable_by_ref("k", 0), c.h("abc".into())));
    }
    let t = tester.lock().unwrap();
    Outcome { per_thread, post, linearizable: t.is_consistent(), history_len: t.len() }
}

// ---------------------------------------------------------------------------------------------
// exploring one workload
// ---------------------------------------------------------------------------------------------
#[derive(Default)]
struct Explored {
    executions: u64,
    failure: Option<(String, String, String)>, // (oracle, detail, schedule)
    sched_kind: String,
    history_ops: u64,
}
fn sched_dir() -> std::path::PathBuf {
    let d = std::env::var("SIM_TMP").unwrap_or_else(|_| "/verif/.work/tmp".to_string());
    let p = std::path::PathBuf::from(d).join(format!("sched_{}", std::process::id()));
    let _ = std::fs::remove_dir_all(&p);
    let _ = std::fs::create_dir_all(&p);
    p
}
fn config(w: &Workload, dir: &std::path::Path) -> Config {
    let mut c = Config::new();
    c.stack_size = if w.uses_lib() { 4 << 20 } else { 1 << 20 };
    c.max_steps = MaxSteps::FailAfter(20_000);
    c.failure_persistence = FailurePersistence::File(Some(dir.to_path_buf()));
    c.silence_warnings = true;
    c
}
fn classify(msg: &str) -> &'static str {
    if msg.contains("deadlock") {
        "C16.deadlock"
    } else if msg.contains("exceeded max_steps") || msg.contains("max_steps") {
        "C16.step-budget"
    } else if msg.contains("RESULT-MISMATCH") {
        "C16.results-differ-from-sequential"
    } else if msg.contains("NOT-LINEARIZABLE") {
        "C16.shared-not-linearizable"
    } else if msg.contains("TEMPLATE-MISMATCH") {
        "C16.cached-template-differs"
    } else {
        "C16.panic"
    }
}
fn body(w: &Workload, reference: &Outcome) {
    let o = scenario(w, false);
    for (t, (got, want)) in o.per_thread.iter().zip(reference.per_thread.iter()).enumerate() {
        if got != want {
            panic!("RESULT-MISMATCH thread {}: concurrent {:?} vs one-after-another {:?}", t, got, want);
        }
    }
    if o.post != reference.post {
        panic!("TEMPLATE-MISMATCH after concurrent negotiation {:?} vs sequential {:?}", o.post, reference.post);
    }
    if !o.linearizable {
        panic!("NOT-LINEARIZABLE history of {} operations on the shared connection", o.history_len);
    }
}
fn reference_of(w: &Workload) -> Result<Outcome, String> {
    let slot: Arc<std::sync::Mutex<Option<Outcome>>> = Arc::new(std::sync::Mutex::new(None));
    let s2 = slot.clone();
    let w2 = w.clone();
    let dir = sched_dir();
    let cfg = config(w, &dir);
    let r = simcore::guarded(move || {
        Runner::new(RandomScheduler::new_from_seed(1, 1), cfg).run(move || {
            let o = scenario(&w2, true);
            *s2.lock().unwrap() = Some(o);
        });
    });
    match r {
        Ok(()) => slot.lock().unwrap().take().ok_or_else(|| "no reference outcome".to_string()),
        Err(p) => Err(format!("{} at {}", p.msg, p.site())),
    }
}
fn run_with<S: shuttle::scheduler::Scheduler + 'static>(w: &Workload, reference: Arc<Outcome>, sched: S, kind: &str, ex: &mut Explored) {
    if ex.failure.is_some() {
        return;
    }
    let dir = sched_dir();
    let cfg = config(w, &dir);
    let w2 = w.clone();
    let before = EXECUTIONS.load(Ordering::Relaxed);
    let r = simcore::guarded(move || {
        Runner::new(sched, cfg).run(move || body(&w2, &reference));
    });
    ex.executions += EXECUTIONS.load(Ordering::Relaxed) - before;
    if let Err(p) = r {
        // shuttle persisted the failing schedule
        let mut schedule = String::new();
        if let Ok(rd) = std::fs::read_dir(&dir) {
            for e in rd.flatten() {
                if let Ok(s) = std::fs::read_to_string(e.path()) {
                    schedule = s.trim().to_string();
                }
            }
        }
        ex.failure = Some((classify(&p.msg).to_string(), p.msg.chars().take(400).collect(), schedule));
        ex.sched_kind = kind.to_string();
    }
    let _ = std::fs::remove_dir_all(&dir);
}
fn explore(w: &Workload, seed: u64, iters: usize) -> Result<Explored, String> {
    let reference = Arc::new(reference_of(w)?);
    let mut ex = Explored::default();
    ex.history_ops = w.threads.iter().flatten().filter(|o| OPS[(o[0] as usize) % OPS.len()].starts_with("shared")).count() as u64;
    run_with(w, reference.clone(), RandomScheduler::new_from_seed(seed, iters), "random", &mut ex);
    run_with(w, reference.clone(), PctScheduler::new_from_seed(seed ^ 0x55, 2, iters / 2), "pct2", &mut ex);
    run_with(w, reference.clone(), PctScheduler::new_from_seed(seed ^ 0xaa, 3, iters / 2), "pct3", &mut ex);
    if w.threads.len() == 2 && w.threads.iter().map(|t| t.len()).sum::<usize>() <= 5 {
        run_with(w, reference.clone(), DfsScheduler::new(Some(iters), false), "dfs", &mut ex);
    }
    Ok(ex)
}

fn case_json(w: &Workload, seed: u64, kind: &str, schedule: &str) -> Value {
    json!({"prop": "C16", "plan": {"threads": w.to_json(), "scheduler": kind, "schedule": schedule, "workload_hash": format!("{:016x}", w.hash())}, "seed": seed})
}

fn main() {
    let args: Vec<String> = std::env::args().collect();
    if std::env::var("SIM_LOUD").is_err() {
        simcore::install_silent_panic_hook();
    }
    if let Ok(p) = std::env::var("SIMCONC_CDYLIB") {
        if std::path::Path::new(&p).exists() {
            let _ = LIB_PATH.set(p);
        }
    }
    match args.get(1).map(|s| s.as_str()).unwrap_or("") {
        "run" => {
            let seed: u64 = arg(&args, "--seed").and_then(|s| s.parse().ok()).unwrap_or(simcore::DEFAULT_SEED);
            let from: u64 = arg(&args, "--from").and_then(|s| s.parse().ok()).unwrap_or(0);
            let to: u64 = arg(&args, "--to").and_then(|s| s.parse().ok()).unwrap_or(1);
            let stride: u64 = arg(&args, "--stride").and_then(|s| s.parse().ok()).unwrap_or(1);
            let thorough = arg(&args, "--tier").as_deref() == Some("thorough");
            let deadline = arg(&args, "--max-seconds").and_then(|s| s.parse::<u64>().ok()).map(|s| std::time::Instant::now() + std::time::Duration::from_secs(s));
            let mut journal = Journal::open(arg(&args, "--journal").as_deref());
            let trace = flag(&args, "--trace");
            let mut stats = Stats::new();
            let iters = if thorough { 1500 } else { 300 };
            let mut i = from;
            while i < to {
                journal.line(&format!("BEGIN {}", i));
                let wseed = mix(seed, "simconc-C16", i);
                let w = gen_workload(wseed, LIB_PATH.get().is_some());
                if trace {
                    journal.line(&format!("EVAL {}", case_json(&w, wseed, "search", "")));
                }
                stats.inc("jobs");
                match explore(&w, wseed, iters) {
                    Ok(ex) => {
                        stats.add("evals", ex.executions);
                        stats.add("logical_steps", ex.executions);
                        stats.add("evals_with_fault_fired", ex.executions); // every execution is a different interleaving
                        stats.add("shared_history_ops", ex.history_ops);
                        if w.uses_lib() {
                            stats.inc("probe.workload_with_dlopen_plugin");
                        }
                        let names: Vec<&str> = w.threads.iter().flatten().map(|o| OPS[(o[0] as usize) % OPS.len()]).collect();
                        if names.iter().filter(|n| n.starts_with("create_a")).count() >= 2 {
                            stats.inc("probe.same_interface_created_by_several_threads");
                        }
                        if names.iter().any(|n| n.contains("old_caller") || n.contains("new_caller")) {
                            stats.inc("probe.version_skewed_peer");
                        }
                        if names.iter().any(|n| *n == "call_cb" || *n == "call_take") {
                            stats.inc("probe.implementation_side_creates_connection");
                        }
                        if names.iter().any(|n| *n == "call_mk") {
                            stats.inc("probe.caller_side_creates_connection_for_returned_object");
                        }
                        let mut fam: Vec<&str> = names.clone();
                        fam.sort();
                        fam.dedup();
                        let outcome = if ex.failure.is_some() { "violation" } else { "ok" };
                        stats.inc(&format!("outcome.{}", outcome));
                        stats.sig(format!("{}t|{}|{}", w.threads.len(), fam.join(","), outcome));
                        match ex.failure {
                            Some((oracle, detail, schedule)) => {
                                stats.inc("violations_raw");
                                if stats.violations.len() < 20 && !stats.violations.iter().any(|x| x["oracle"] == json!(oracle)) {
                                    stats.violations.push(json!({
                                        "job": i, "oracle": oracle, "detail": detail,
                                        "signature": {"oracle": oracle, "engine": "simconc", "container": "-", "fault_kind": format!("schedule({})", ex.sched_kind), "site": detail.split(' ').take(6).collect::<Vec<_>>().join(" ").chars().filter(|c| !c.is_ascii_digit()).collect::<String>(), "region": "-"},
                                        "case": case_json(&w, wseed, &ex.sched_kind, &schedule), "log_hash": "-",
                                    }));
                                }
                            }
                            None => stats.sample(&format!("threads{}", w.threads.len()), || json!({"workload": w.to_json(), "executions": ex.executions})),
                        }
                    }
                    Err(e) => {
                        stats.inc("reference_failed");
                        stats.sample("reference_failed", || json!({"workload": w.to_json(), "error": e}));
                    }
                }
                journal.line(&format!("END {} 0", i));
                i += stride;
                if let Some(d) = deadline {
                    if std::time::Instant::now() > d {
                        break;
                    }
                }
            }
            stats.add("probe.template_lock_contended", REACH_TEMPLATE_CONTENDED.load(Ordering::Relaxed));
            let mut out = stats.to_json();
            out["completed_to"] = json!(i);
            let s = serde_json::to_string(&out).unwrap();
            match arg(&args, "--out") {
                Some(p) => std::fs::write(p, s).expect("write out"),
                None => println!("{}", s),
            }
        }
        "replay" => {
            let v: Value = serde_json::from_str(&std::fs::read_to_string(args.get(2).expect("file")).expect("read")).expect("json");
            let cv = if v.get("case").is_some() { v["case"].clone() } else { v.clone() };
            let w = Workload::from_json(&cv["plan"]["threads"]);
            let seed = simcore::ju(&cv, "seed");
            let schedule = simcore::js(&cv["plan"], "schedule").to_string();
            let same_workload = simcore::js(&cv["plan"], "workload_hash") == format!("{:016x}", w.hash());
            if w.threads.is_empty() {
                println!("{}", json!({"verdict": "ok", "note": "empty workload"}));
                std::process::exit(0);
            }
            let reference = match reference_of(&w) {
                Ok(r) => Arc::new(r),
                Err(e) => {
                    println!("{}", json!({"verdict": "reference-failed", "error": e}));
                    std::process::exit(3);
                }
            };
            if !schedule.is_empty() && same_workload {
                // exact replay of the recorded schedule
                let w2 = w.clone();
                let r2 = reference.clone();
                let sch = schedule.clone();
                let r = simcore::guarded(move || shuttle::replay(move || body(&w2, &r2), &sch));
                match r {
                    Err(p) => {
                        println!("{}", json!({"verdict": "violation", "oracle": classify(&p.msg), "detail": p.msg.chars().take(400).collect::<String>(), "schedule": schedule, "log_hash": format!("{:016x}", simcore::fnv_bytes(schedule.as_bytes()))}));
                        std::process::exit(1);
                    }
                    Ok(()) => {
                        println!("{}", json!({"verdict": "ok", "note": "recorded schedule replayed without failure"}));
                        std::process::exit(0);
                    }
                }
            }
            // the workload was edited (minimisation): re-search a fixed budget of schedules
            match explore(&w, seed ^ 0x1234, 600) {
                Ok(ex) => match ex.failure {
                    Some((oracle, detail, sched)) => {
                        println!("{}", json!({"verdict": "violation", "oracle": oracle, "detail": detail, "schedule": sched, "scheduler": ex.sched_kind, "workload_hash": format!("{:016x}", w.hash()), "log_hash": format!("{:016x}", simcore::fnv_bytes(sched.as_bytes()))}));
                        std::process::exit(1);
                    }
                    None => {
                        println!("{}", json!({"verdict": "ok", "executions": ex.executions}));
                        std::process::exit(0);
                    }
                },
                Err(e) => {
                    println!("{}", json!({"verdict": "reference-failed", "error": e}));
                    std::process::exit(3);
                }
            }
        }
        "facts" => println!("{}", json!({"ops": OPS, "cdylib": LIB_PATH.get()})),
        _ => {
            eprintln!("usage: simconc run|replay|facts");
            std::process::exit(2);
        }
    }
}
