//! Harness interfaces for C16. Implementation bodies contain explicit preemption points so that the
//! scheduler can interleave threads *inside* calls made through the ABI.
#![allow(dead_code)]
use savefile_derive::savefile_abi_exportable;
#[cfg(not(simconc_std))]
use shuttle::sync::Mutex;
#[cfg(simconc_std)]
use std::sync::Mutex;

pub fn preempt() {
    // a context switch opportunity (sleep, not yield_now: yield_now deprioritises the thread under PCT)
    #[cfg(not(simconc_std))]
    shuttle::thread::sleep(std::time::Duration::from_millis(0));
    #[cfg(simconc_std)]
    std::thread::yield_now();
}

#[savefile_abi_exportable(version = 0)]
pub trait Leaf: Send + Sync {
    fn ping(&self, x: u32) -> u32;
}
pub struct LeafImpl(pub u32);
impl Leaf for LeafImpl {
    fn ping(&self, x: u32) -> u32 {
        preempt();
        x.wrapping_mul(7).wrapping_add(self.0)
    }
}

/// interface A, as seen by a caller/implementation built against revision 0
pub mod a_v0 {
    use super::Leaf;
    use savefile_derive::{savefile_abi_exportable, Savefile};
    #[derive(Savefile, Clone, Debug, PartialEq)]
    pub struct Arg {
        pub a: u32,
    }
    #[savefile_abi_exportable(version = 0)]
    pub trait IfA: Send + Sync {
        fn f(&self, x: u32) -> u32;
        fn g(&self, a: Arg) -> u32;
        fn cb(&self, f: &dyn Fn(u32) -> u32, x: u32) -> u32;
        fn mk(&self, t: u32) -> Box<dyn Leaf>;
        fn take(&self, l: Box<dyn Leaf>, x: u32) -> u32;
    }
}
/// interface A, revision 1: a versioned field in the argument and one more method
pub mod a_v1 {
    use super::Leaf;
    use savefile_derive::{savefile_abi_exportable, Savefile};
    #[derive(Savefile, Clone, Debug, PartialEq)]
    pub struct Arg {
        pub a: u32,
        #[savefile_versions = "1.."]
        #[savefile_default_val = "5"]
        pub b: u32,
    }
    #[savefile_abi_exportable(version = 1)]
    pub trait IfA: Send + Sync {
        fn f(&self, x: u32) -> u32;
        fn g(&self, a: Arg) -> u32;
        fn cb(&self, f: &dyn Fn(u32) -> u32, x: u32) -> u32;
        fn mk(&self, t: u32) -> Box<dyn Leaf>;
        fn take(&self, l: Box<dyn Leaf>, x: u32) -> u32;
        fn extra(&self, x: u32) -> u32;
    }
}
/// an interface that is NOT compatible with a_v0::IfA (argument type of `f` differs): negotiation must fail
pub mod a_bad {
    use super::Leaf;
    use savefile_derive::{savefile_abi_exportable, Savefile};
    #[derive(Savefile, Clone, Debug, PartialEq)]
    pub struct Arg {
        pub a: u32,
    }
    #[savefile_abi_exportable(version = 0)]
    pub trait IfA: Send + Sync {
        fn f(&self, x: String) -> u32;
        fn g(&self, a: Arg) -> u32;
        fn cb(&self, f: &dyn Fn(u32) -> u32, x: u32) -> u32;
        fn mk(&self, t: u32) -> Box<dyn Leaf>;
        fn take(&self, l: Box<dyn Leaf>, x: u32) -> u32;
    }
}
/// two definitions of one interface that differ only in the bounds of an owned closure argument: an implementation that
/// requires `Send + Sync` (it may call the closure from several threads) must refuse a caller that does not promise it
pub mod c_caller {
    use savefile_derive::savefile_abi_exportable;
    #[savefile_abi_exportable(version = 0)]
    pub trait IfC: Send + Sync {
        fn run(&self, f: Box<dyn Fn(u32) -> u32>, x: u32) -> u32;
    }
}
pub mod c_callee {
    use savefile_derive::savefile_abi_exportable;
    #[savefile_abi_exportable(version = 0)]
    pub trait IfC: Send + Sync {
        fn run(&self, f: Box<dyn Fn(u32) -> u32 + Send + Sync>, x: u32) -> u32;
    }
}
pub struct ImplC;
impl c_callee::IfC for ImplC {
    fn run(&self, f: Box<dyn Fn(u32) -> u32 + Send + Sync>, x: u32) -> u32 {
        f(x)
    }
}
/// an implementation of a_v0::IfA whose Drop uses the library (creates a connection and calls through it): if the
/// library ever drops it while holding one of its own locks, that is a self-deadlock
pub struct ImplDropper;
impl Drop for ImplDropper {
    fn drop(&mut self) {
        if let Ok(c) = savefile_abi::AbiConnection::<dyn IfB>::from_boxed_trait(Box::new(ImplB)) {
            let _ = c.h("dropper".into());
        }
    }
}
impl a_v0::IfA for ImplDropper {
    fn f(&self, x: u32) -> u32 {
        x
    }
    fn g(&self, a: a_v0::Arg) -> u32 {
        a.a
    }
    fn cb(&self, f: &dyn Fn(u32) -> u32, x: u32) -> u32 {
        f(x)
    }
    fn mk(&self, t: u32) -> Box<dyn Leaf> {
        Box::new(LeafImpl(t))
    }
    fn take(&self, l: Box<dyn Leaf>, x: u32) -> u32 {
        l.ping(x)
    }
}
pub struct ImplA0;
impl a_v0::IfA for ImplA0 {
    fn f(&self, x: u32) -> u32 {
        preempt();
        x.wrapping_add(1000)
    }
    fn g(&self, a: a_v0::Arg) -> u32 {
        preempt();
        a.a.wrapping_mul(3)
    }
    fn cb(&self, f: &dyn Fn(u32) -> u32, x: u32) -> u32 {
        preempt();
        let r = f(x);
        preempt();
        f(r)
    }
    fn mk(&self, t: u32) -> Box<dyn Leaf> {
        preempt();
        Box::new(LeafImpl(t))
    }
    fn take(&self, l: Box<dyn Leaf>, x: u32) -> u32 {
        preempt();
        l.ping(x)
    }
}
pub struct ImplA1;
impl a_v1::IfA for ImplA1 {
    fn f(&self, x: u32) -> u32 {
        preempt();
        x.wrapping_add(1000)
    }
    fn g(&self, a: a_v1::Arg) -> u32 {
        preempt();
        a.a.wrapping_mul(3).wrapping_add(a.b)
    }
    fn cb(&self, f: &dyn Fn(u32) -> u32, x: u32) -> u32 {
        preempt();
        let r = f(x);
        preempt();
        f(r)
    }
    fn mk(&self, t: u32) -> Box<dyn Leaf> {
        preempt();
        Box::new(LeafImpl(t))
    }
    fn take(&self, l: Box<dyn Leaf>, x: u32) -> u32 {
        preempt();
        l.ping(x)
    }
    fn extra(&self, x: u32) -> u32 {
        x
    }
}

#[savefile_abi_exportable(version = 0)]
pub trait IfB: Send + Sync {
    fn h(&self, s: String) -> usize;
    fn k(&self, v: &[u32]) -> u64;
}
pub struct ImplB;
impl IfB for ImplB {
    fn h(&self, s: String) -> usize {
        preempt();
        s.len() * 2
    }
    fn k(&self, v: &[u32]) -> u64 {
        preempt();
        v.iter().map(|x| *x as u64).sum()
    }
}

/// the connection shared by all threads: a register + counter + append-log behind one lock
#[savefile_abi_exportable(version = 0)]
pub trait Shared: Send + Sync {
    fn inc(&self) -> u64;
    fn write(&self, v: u64) -> u64;
    fn read(&self) -> u64;
    fn append(&self, v: u64, pad: String) -> u64;
    fn log_len(&self) -> u64;
}
#[derive(Default)]
pub struct SharedState {
    pub counter: u64,
    pub reg: u64,
    pub log: Vec<u64>,
}
pub struct SharedImpl {
    pub st: Mutex<SharedState>,
}
impl Shared for SharedImpl {
    fn inc(&self) -> u64 {
        preempt();
        let mut s = self.st.lock().unwrap();
        s.counter += 1;
        s.counter
    }
    fn write(&self, v: u64) -> u64 {
        preempt();
        let mut s = self.st.lock().unwrap();
        let old = s.reg;
        s.reg = v;
        old
    }
    fn read(&self) -> u64 {
        preempt();
        self.st.lock().unwrap().reg
    }
    fn append(&self, v: u64, pad: String) -> u64 {
        preempt();
        let mut s = self.st.lock().unwrap();
        s.log.push(v ^ pad.len() as u64);
        s.log.len() as u64
    }
    fn log_len(&self) -> u64 {
        preempt();
        self.st.lock().unwrap().log.len() as u64
    }
}
